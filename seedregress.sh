#!/bin/bash
# usage: ./seedregress.sh [tier] [ids...] - for every kept seeded change (seeded/<id>/patch.diff) make a scratch worktree of
# /repo's HEAD under /tmp, apply the patch, run the registered check against it (VERIF_REPO=<worktree>, /repo untouched),
# and report whether the change is still caught. Each worktree and its build output are removed before the next one.
tier=${1:-quick}; shift
ids="$@"
[ -z "$ids" ] && ids=$(ls /verif/seeded)
base=/tmp/seedregress-$$
mkdir -p $base
missed=0; n=0
for id in $ids; do
  # the check expected to catch it: the first entry of detected_by in the seed's meta.json (default: its own property)
  prop=$(python3 -c "import json,sys; d=json.load(open('/verif/seeded/$id/meta.json')); print((d.get('detected_by') or ['${id:0:3}'])[0])" 2>/dev/null || echo ${id:0:3})
  wt=$base/$id
  git -C /repo worktree add --detach $wt HEAD >/dev/null 2>&1 || { echo "$id: cannot create worktree"; continue; }
  if ! git -C $wt apply /verif/seeded/$id/patch.diff 2>/dev/null; then
    echo "$id: patch does not apply to HEAD"
  else
    out=$(VERIF_REPO=$wt /verif/run $prop $tier 2>&1); rc=$?
    n=$((n+1))
    key=$(echo "$out" | grep -m1 -o 'key=[^ ]*')
    if [ $rc -eq 1 ]; then echo "$id: caught ($key)"; else missed=$((missed+1)); echo "$id: NOT caught rc=$rc $(echo "$out" | tail -1 | cut -c1-120)"; fi
  fi
  git -C /repo worktree remove --force $wt >/dev/null 2>&1
  rm -rf /verif/.build/alt-$id
done
git -C /repo worktree prune
rmdir $base 2>/dev/null
echo "seeds run: $n, not caught: $missed"
[ $missed -eq 0 ]
