#!/bin/bash
# usage: ./mut.sh <patch.diff> <Cnn> [tier]  — apply a patch to /repo, run a check, undo the patch. For validating sensitivity only.
set -u
patch=$1; prop=$2; tier=${3:-quick}
git -C /repo apply "$patch" || { echo "patch does not apply"; exit 3; }
./run "$prop" "$tier"; rc=$?
git -C /repo checkout -- . ; git -C /repo status --short
echo "mut: rc=$rc"
exit $rc
