#!/usr/bin/env python3
"""usage: ./seedverify.py <Cnn> [check ids...]
Confirms an independently produced seeded change (sub-agent output under /tmp/seed/out/<Cnn>, worktree /tmp/seed/<Cnn> with the
patch applied): (1) the patched tree builds and the baseline suite still passes, (2) the demonstration fails with the patch and
passes without it, (3) runs the registered checks against the patched worktree. Prints a summary and, with --keep, stores the
change under /verif/seeded/<Cnn>/."""
import json, os, subprocess, sys, shutil
sid = sys.argv[1]
keep = "--keep" in sys.argv
checks = [a for a in sys.argv[2:] if not a.startswith("--")] or [sid[:3]]
base = os.environ.get("SEED_BASE", "/tmp/seed")
wt, out = base + "/" + sid, base + "/out/" + sid
env = dict(os.environ, GOFLAGS="-mod=mod", GOPROXY="off", GOSUMDB="off", GOTOOLCHAIN="local")
meta = json.load(open(out + "/meta.json"))
def sh(cmd, **kw):
    return subprocess.run(["bash", "-c", cmd], env=env, stdout=subprocess.PIPE, stderr=subprocess.STDOUT, text=True, errors="replace", **kw)
res = {"id": sid}
# patch.diff must equal the worktree diff and touch no test files
d = sh("git -C %s diff" % wt).stdout
res["patch_files"] = [l[6:] for l in d.splitlines() if l.startswith("+++ b/")]
res["touches_tests"] = any(f.endswith("_test.go") or "/testdata/" in f for f in res["patch_files"])
open(out + "/patch.diff", "w").write(d)
b = sh("go build ./... 2>&1 | tail -3", cwd=wt)
res["builds"] = b.returncode == 0 and "error" not in b.stdout
bc = sh("/verif/basecheck %s" % wt)
res["baseline"] = bc.stdout.strip().splitlines()[0] if bc.stdout.strip() else "?"
res["baseline_ok"] = bc.returncode == 0
import re
demo = meta.get("demo_run", "")
if meta.get("demo_cmd"):
    demo = meta["demo_cmd"] if isinstance(meta["demo_cmd"], str) else " && ".join(meta["demo_cmd"])
else:
    demo = re.split(r"\s+--\s+(?=[Ee]xpect)|\s{2,}--\s|\s+#\s|\.\s+(?=Expected)|\s+\(expected|\s+=> ", demo)[0]
if os.path.exists(out + "/demo_cmd.sh"):
    demo = "bash " + out + "/demo_cmd.sh"
res["demo_cmd"] = demo
if "--nodemo" not in sys.argv:
    r1 = sh(demo, cwd=wt)
    res["demo_with_patch_rc"] = r1.returncode
    res["demo_with_patch_tail"] = r1.stdout[-600:]
    # no `git stash` here: the stash is shared by all worktrees of a repository, and concurrent users cross their changes
    sh("git -C %s apply -R %s/patch.diff" % (wt, out))
    r2 = sh(demo, cwd=wt)
    sh("git -C %s apply %s/patch.diff" % (wt, out))
    res["demo_without_patch_rc"] = r2.returncode
    res["demo_without_patch_tail"] = r2.stdout[-300:]
res["checks"] = {}
for c in checks:
    e2 = dict(env, VERIF_REPO=wt)
    r = subprocess.run(["/verif/run", c, "quick"], env=e2, stdout=subprocess.PIPE, stderr=subprocess.STDOUT, text=True, errors="replace", cwd="/verif")
    first = [l for l in r.stdout.splitlines() if l.strip()][:4]
    res["checks"][c] = {"rc": r.returncode, "head": [l[:300] for l in first]}
print(json.dumps(res, indent=1))
if keep:
    dst = "/verif/seeded/" + sid
    shutil.rmtree(dst, ignore_errors=True)
    os.makedirs(dst)
    shutil.copy(out + "/patch.diff", dst)
    if os.path.isdir(out + "/demo"):
        shutil.copytree(out + "/demo", dst + "/demo")
    meta["verified"] = {k: res.get(k) for k in ("builds", "baseline", "baseline_ok", "demo_with_patch_rc", "demo_without_patch_rc", "touches_tests")}
    meta["checks_run"] = res["checks"]
    json.dump(meta, open(dst + "/meta.json", "w"), indent=1)
