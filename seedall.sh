#!/bin/bash
# usage: ./seedall.sh id... — verify seeds and print one-line summaries
for id in "$@"; do ./seedverify.py $id --keep > /tmp/seed/out/$id.verify.json 2>&1; python3 - $id <<'PY'
import json, sys
i = sys.argv[1]
try:
    r = json.load(open('/tmp/seed/out/%s.verify.json' % i))
    print(r['id'], 'tests_touched' if r['touches_tests'] else '', 'builds' if r['builds'] else 'NOBUILD', r['baseline'], '| demo with:', 'FAIL' if 'FAIL' in r.get('demo_with_patch_tail', '') else 'pass?', 'without:', 'ok' if 'ok ' in r.get('demo_without_patch_tail', '') and 'FAIL' not in r.get('demo_without_patch_tail', '') else 'NOT-OK', '| checks:', {k: v['rc'] for k, v in r['checks'].items()})
    for k, v in r['checks'].items():
        print('   ', [x[:220] for x in v['head'][:3]])
except Exception as e:
    print(i, 'ERR', e, open('/tmp/seed/out/%s.verify.json' % i).read()[-500:])
PY
done
