#!/bin/bash
# usage: [SEED_BASE=/tmp/seed2] ./seedall.sh id... — verify seeds and print one-line summaries
base=${SEED_BASE:-/tmp/seed}
for id in "$@"; do ./seedverify.py $id --keep > $base/out/$id.verify.json 2>&1; python3 - $id $base <<'PY'
import json, sys
i, base = sys.argv[1], sys.argv[2]
f = '%s/out/%s.verify.json' % (base, i)
try:
    r = json.load(open(f))
    print(r['id'], 'tests_touched' if r['touches_tests'] else '', 'builds' if r['builds'] else 'NOBUILD', r['baseline'], '| demo with:', 'FAIL' if 'FAIL' in r.get('demo_with_patch_tail', '') else 'pass?', 'without:', 'ok' if 'ok ' in r.get('demo_without_patch_tail', '') and 'FAIL' not in r.get('demo_without_patch_tail', '') else 'NOT-OK', '| checks:', {k: v['rc'] for k, v in r['checks'].items()})
    for k, v in r['checks'].items():
        print('   ', [x[:220] for x in v['head'][:3]])
except Exception as e:
    print(i, 'ERR', e, open(f).read()[-500:])
PY
done
