package c18

import (
	"bytes"
	"fmt"
	"go/parser"
	"go/token"
	"io"
	"strconv"
	"strings"
	"testing"
	"testing/iotest"

	"github.com/rogpeppe/go-internal/imports"
	"pgregory.net/rapid"

	"verif/vt"
)

var rec = vt.New("C18")

func TestMain(m *testing.M) { vt.Main(m, rec) }

var bom = []byte{0xef, 0xbb, 0xbf}

type srcCase struct {
	Src vt.B `json:"src"`
	// Pad appends that many bytes of NUL-free filler after Src (inputs larger than the reader's 4096-byte buffer).
	Pad int `json:"pad,omitempty"`
}

const filler = "\nvar filler = 1 // 0123456789 é"

func (c srcCase) bytes() []byte {
	src := append([]byte(nil), c.Src...)
	if c.Pad > 0 && c.Pad <= 1<<20 {
		src = append(src, strings.Repeat(filler, c.Pad/len(filler)+1)[:c.Pad]...)
	}
	return src
}

func parserImports(src []byte, mode parser.Mode) ([]string, error) {
	f, err := parser.ParseFile(token.NewFileSet(), "x.go", src, mode)
	if err != nil {
		return nil, err
	}
	var out []string
	for _, s := range f.Imports {
		p, err := strconv.Unquote(s.Path.Value)
		if err != nil {
			return nil, err
		}
		out = append(out, p)
	}
	return out, nil
}

// otherInput is read between obtaining a result and inspecting it: what ReadImports returned must stay what it was
// when a later call reads a different file.
var otherInput = []byte("// Copyright. A different file, read later.\n\npackage later /* " + strings.Repeat("z", 300) + " */\n\nimport (\n\t\"later/one\"\n\tl2 \"later/two\"\n)\n\nvar later = 1\n")

// readerFor wraps the input in one of several io.Reader behaviours, chosen by a hash of the input so that a replayed
// case reads the same way: all at once, one byte per call, half of the request, data returned together with io.EOF,
// or in chunks of 7 bytes.
func readerFor(src []byte) io.Reader {
	h := uint32(2166136261)
	for _, b := range src {
		h = (h ^ uint32(b)) * 16777619
	}
	r := bytes.NewReader(append([]byte(nil), src...))
	switch h % 8 {
	case 1:
		return iotest.OneByteReader(r)
	case 2:
		return iotest.HalfReader(r)
	case 3:
		return iotest.DataErrReader(r)
	case 4:
		return iotest.DataErrReader(iotest.OneByteReader(r))
	case 5:
		return &chunkReader{r: r, n: 7}
	}
	return r
}

type chunkReader struct {
	r io.Reader
	n int
}

func (c *chunkReader) Read(p []byte) (int, error) {
	if len(p) > c.n {
		p = p[:c.n]
	}
	return c.r.Read(p)
}

func readImports(src []byte, strict bool) (data []byte, list []string, err error, fail *vt.Fail) {
	fail = vt.Guard("readimports-panic", func() *vt.Fail {
		data, err = imports.ReadImports(readerFor(src), strict, &list)
		snapshot := append([]byte(nil), data...)
		names := append([]string(nil), list...)
		var other []string
		imports.ReadImports(bytes.NewReader(otherInput), true, &other)
		imports.ReadImports(bytes.NewReader(otherInput), false, &other)
		if !bytes.Equal(data, snapshot) || !eqStrings(list, names) {
			return vt.Failf("result-changed-by-later-call", "ReadImports on %q returned %q %q, which turned into %q %q after ReadImports was called on another input", src, snapshot, names, data, list)
		}
		return nil
	})
	return
}

func isPrefixBOMAside(data, src []byte) bool {
	return bytes.HasPrefix(src, data) || bytes.HasPrefix(bytes.TrimPrefix(src, bom), data)
}

// checkValid: src is a syntactically valid Go file (validated with go/parser; otherwise skipped).
func checkValid(c srcCase) *vt.Fail {
	src := c.bytes()
	want, perr := parserImports(src, 0)
	if perr != nil {
		rec.Class("valid:rejected-by-go/parser", 1)
		return nil
	}
	for _, strict := range []bool{true, false} {
		data, list, err, fail := readImports(src, strict)
		if fail != nil {
			return fail
		}
		if err != nil {
			return vt.Failf("valid-file-error", "ReadImports(reportSyntaxError=%v) on valid file %q: error %v", strict, src, err)
		}
		var got []string
		for _, q := range list {
			u, uerr := strconv.Unquote(q)
			if uerr != nil {
				return vt.Failf("import-not-a-string-literal", "ReadImports(%q) reported %q which is not a string literal", src, q)
			}
			got = append(got, u)
		}
		if !eqStrings(got, want) {
			return vt.Failf("imports-differ", "ReadImports(reportSyntaxError=%v) on %q = %q, go/parser = %q", strict, src, got, want)
		}
		if !isPrefixBOMAside(data, src) {
			return vt.Failf("not-a-prefix", "ReadImports(%q) returned %q which is not a leading portion of the input", src, data)
		}
		pi, err2 := parserImports(data, parser.ImportsOnly)
		if err2 != nil {
			return vt.Failf("prefix-does-not-parse", "prefix %q returned for %q does not parse (ImportsOnly): %v", data, src, err2)
		}
		if _, err3 := parserImports(data, 0); err3 != nil {
			return vt.Failf("prefix-does-not-parse", "prefix %q returned for %q is not a parsable file header (full parse): %v", data, src, err3)
		}
		if !eqStrings(pi, want) {
			return vt.Failf("prefix-imports-differ", "prefix %q of %q parses to imports %q, want %q", data, src, pi, want)
		}
	}
	return nil
}

func eqStrings(a, b []string) bool {
	if len(a) != len(b) {
		return false
	}
	for i := range a {
		if a[i] != b[i] {
			return false
		}
	}
	return true
}

// checkAny: arbitrary bytes.
func checkAny(c srcCase) *vt.Fail {
	src := c.bytes()
	d1, l1, e1, fail := readImports(src, true)
	if fail != nil {
		return fail
	}
	d2, l2, e2, fail := readImports(src, false)
	if fail != nil {
		return fail
	}
	if !isPrefixBOMAside(d1, src) {
		return vt.Failf("not-a-prefix", "ReadImports(strict) on %q returned %q: not bytes read from the input", src, d1)
	}
	if !isPrefixBOMAside(d2, src) {
		return vt.Failf("not-a-prefix", "ReadImports(lenient) on %q returned %q: not bytes read from the input", src, d2)
	}
	switch {
	case e1 == nil:
		if e2 != nil || !bytes.Equal(d1, d2) || !eqStrings(l1, l2) {
			return vt.Failf("modes-disagree", "on %q strict mode succeeded (%q, %q) but lenient mode gave (%q, %q, %v)", src, d1, l1, d2, l2, e2)
		}
	case e1.Error() == "syntax error":
		// lenient mode must hand back the whole input (it may additionally report a non-syntax read error such as a NUL byte,
		// in which case it returns everything up to that byte)
		whole := bytes.Equal(d2, src) || bytes.Equal(d2, bytes.TrimPrefix(src, bom))
		if e2 != nil && e2.Error() == "syntax error" {
			return vt.Failf("lenient-reports-syntax-error", "on %q lenient mode reports a syntax error", src)
		}
		if e2 == nil && !whole {
			return vt.Failf("lenient-not-whole-input", "on %q strict mode reports a syntax error; lenient mode must return the whole input, got %q", src, d2)
		}
		if e2 != nil && !(len(d2) > 0 && d2[len(d2)-1] == 0) {
			return vt.Failf("lenient-not-whole-input", "on %q lenient mode stopped early with %v after %q", src, e2, d2)
		}
	default:
		if e2 == nil {
			return vt.Failf("modes-disagree", "on %q strict mode reports %v but lenient mode no error", src, e1)
		}
	}
	// when the input is a valid Go file the valid-file oracle applies as well
	if _, err := parserImports(src, 0); err == nil {
		return checkValid(c)
	}
	return nil
}

// ---------- grammar ----------

var cmtLine = []string{"// import \"c\"\n", "//\n", "// /*\n", "//import (\n", "// é\n"}
var cmtBlock = []string{"/* import \"y\" */", "/**/", "/***/", "/* * / */", "/* // */", "/*/ x */", "/*/*/", "/* \" */", "/* ` */"}
var cmtBlockNL = []string{"/*\n*/", "/* a\n import \"n\" */", "/*/\n*/"}

// gapNL: any white space, may contain newlines and comments.
func gapNL(t *rapid.T, b *strings.Builder, st *stats) {
	n := rapid.IntRange(0, 3).Draw(t, "gapn")
	if rapid.IntRange(0, 199).Draw(t, "gapbig") == 137 {
		// a comment that straddles the reader's 4096-byte buffer
		b.WriteString("/*" + strings.Repeat("x ", rapid.SampledFrom([]int{2030, 2046, 2047, 2048, 4100}).Draw(t, "bigc")) + "*/")
		st.comments++
		st.big++
	}
	for i := 0; i < n; i++ {
		switch rapid.IntRange(0, 7).Draw(t, "gap") {
		case 0, 1:
			b.WriteString(" ")
		case 2:
			b.WriteString("\n")
		case 3:
			b.WriteString("\t")
		case 4:
			b.WriteString(rapid.SampledFrom(cmtLine).Draw(t, "lc"))
			st.comments++
		case 5:
			b.WriteString(rapid.SampledFrom(cmtBlock).Draw(t, "bc"))
			st.comments++
		case 6:
			b.WriteString(rapid.SampledFrom(cmtBlockNL).Draw(t, "bcn"))
			st.comments++
		case 7:
			b.WriteString("\r\n")
		}
	}
}

// gap0: white space without newline.
func gap0(t *rapid.T, b *strings.Builder, st *stats, required bool) {
	n := rapid.IntRange(0, 2).Draw(t, "gap0n")
	if required && n == 0 {
		n = 1
	}
	for i := 0; i < n; i++ {
		switch rapid.IntRange(0, 3).Draw(t, "gap0") {
		case 0, 1:
			b.WriteString(" ")
		case 2:
			b.WriteString("\t")
		case 3:
			b.WriteString(rapid.SampledFrom(cmtBlock).Draw(t, "bc0"))
			st.comments++
		}
	}
}

// term: statement terminator.
func term(t *rapid.T, b *strings.Builder, st *stats) {
	gap0(t, b, st, false)
	switch rapid.IntRange(0, 5).Draw(t, "term") {
	case 0, 1:
		b.WriteString("\n")
	case 2:
		b.WriteString(";")
		st.semis++
	case 3:
		b.WriteString(rapid.SampledFrom(cmtLine).Draw(t, "tlc"))
		st.comments++
	case 4:
		b.WriteString(" ; \n")
		st.semis++
	case 5:
		b.WriteString(rapid.SampledFrom(cmtBlockNL).Draw(t, "tbn"))
		st.comments++
	}
}

var idents = []string{"p", "main", "x", "_x1", "i", "import1", "é", "日本", "packagex", "importx", "I"}
var pathElems = []string{"a", "fmt", "b-c", "x.y", "github.com", "é", "v2", "~u", "i", "import", "_", "C"}

func genPath(t *rapid.T) string {
	n := rapid.IntRange(1, 3).Draw(t, "pelems")
	var es []string
	for i := 0; i < n; i++ {
		es = append(es, rapid.SampledFrom(pathElems).Draw(t, "pe"))
	}
	p := strings.Join(es, "/")
	switch rapid.IntRange(0, 5).Draw(t, "quote") {
	case 0:
		return "`" + p + "`"
	case 1: // escapes
		var sb strings.Builder
		sb.WriteByte('"')
		for _, r := range p {
			switch rapid.IntRange(0, 5).Draw(t, "esc") {
			case 0:
				if r < 0x80 {
					fmt.Fprintf(&sb, `\x%02x`, r)
				} else {
					fmt.Fprintf(&sb, `\u%04x`, r)
				}
			case 1:
				fmt.Fprintf(&sb, `\U%08x`, r)
			case 2:
				if r < 0x80 {
					fmt.Fprintf(&sb, `\%03o`, r)
				} else {
					sb.WriteRune(r)
				}
			default:
				sb.WriteRune(r)
			}
		}
		sb.WriteByte('"')
		return sb.String()
	default:
		return `"` + p + `"`
	}
}

type stats struct{ comments, semis, imports, groups, big int }

func genSpec(t *rapid.T, b *strings.Builder, st *stats) {
	switch rapid.IntRange(0, 5).Draw(t, "alias") {
	case 0:
		b.WriteString("_")
		gap0(t, b, st, false)
	case 1:
		b.WriteString(".")
		gap0(t, b, st, false)
	case 2:
		b.WriteString(rapid.SampledFrom(idents).Draw(t, "aliasid"))
		gap0(t, b, st, false)
	}
	b.WriteString(genPath(t))
	st.imports++
}

var decls = []string{
	`var x = "import \"q\""`, "func f() { /* import \"z\" */ _ = \"i\" }", "type T struct{}", "const c = 'i'", "var s = `import \"r\"`",
	"func init() {\n\t// import \"w\"\n}", "type i int", "var import_ = 1", "func i() {}",
}

func genFile(t *rapid.T) (string, stats) {
	var b strings.Builder
	var st stats
	if rapid.IntRange(0, 4).Draw(t, "bom") == 0 {
		b.Write(bom)
	}
	gapNL(t, &b, &st)
	b.WriteString("package")
	gapNLreq(t, &b, &st)
	b.WriteString(rapid.SampledFrom(idents).Draw(t, "pkg"))
	nimp := rapid.IntRange(0, 4).Draw(t, "nimp")
	ndecl := rapid.IntRange(0, 2).Draw(t, "ndecl")
	if nimp+ndecl == 0 && rapid.Bool().Draw(t, "bareeof") {
		return b.String(), st
	}
	term(t, &b, &st)
	pre := st
	for i := 0; i < nimp; i++ {
		gapNL(t, &b, &st)
		b.WriteString("import")
		gapNL(t, &b, &st)
		if rapid.Bool().Draw(t, "group") {
			st.groups++
			b.WriteString("(")
			gapNL(t, &b, &st)
			k := rapid.IntRange(0, 3).Draw(t, "nspec")
			for j := 0; j < k; j++ {
				genSpec(t, &b, &st)
				if j == k-1 && rapid.Bool().Draw(t, "noterm") {
					gap0(t, &b, &st, false)
				} else {
					term(t, &b, &st)
				}
				gapNL(t, &b, &st)
			}
			b.WriteString(")")
		} else {
			var sb strings.Builder
			genSpec(t, &sb, &st)
			if c := sb.String()[0]; c != '"' && c != '`' && c != '.' {
				// an identifier alias must not fuse with the keyword
				if last := b.String()[b.Len()-1]; last == 't' {
					b.WriteString(" ")
				}
			}
			b.WriteString(sb.String())
		}
		if i == nimp-1 && ndecl == 0 && rapid.Bool().Draw(t, "eofnoterm") {
			gap0(t, &b, &st, false)
		} else {
			term(t, &b, &st)
		}
	}
	st.comments -= pre.comments
	st.semis -= pre.semis
	for i := 0; i < ndecl; i++ {
		var dummy stats
		gapNL(t, &b, &dummy)
		b.WriteString(rapid.SampledFrom(decls).Draw(t, "decl"))
		term(t, &b, &dummy)
	}
	return b.String(), st
}

func gapNLreq(t *rapid.T, b *strings.Builder, st *stats) {
	l := b.Len()
	gapNL(t, b, st)
	if b.Len() == l {
		b.WriteString(" ")
	}
}

type validCase struct {
	srcCase
	st stats
}

func TestValidFiles(t *testing.T) {
	vt.Run(t, rec, vt.Prop[validCase]{Kind: "valid", Gen: func(t *rapid.T) validCase {
		s, st := genFile(t)
		return validCase{srcCase{Src: vt.B(s)}, st}
	}, Check: func(c validCase) *vt.Fail { return checkValid(c.srcCase) }, Meta: func(c validCase) vt.Meta {
		cl := []string{fmt.Sprintf("imports=%d", min(c.st.imports, 4))}
		if bytes.HasPrefix(c.Src, bom) {
			cl = append(cl, "bom")
		}
		if c.st.groups > 0 {
			cl = append(cl, "grouped")
		}
		if c.st.big > 0 {
			cl = append(cl, "comment-longer-than-4096")
		}
		return vt.Meta{NonTrivial: c.st.imports >= 1 && (c.st.comments > 0 || c.st.semis > 0), Classes: cl}
	}}, vt.N(40000, 600000))
}

func genAny(t *rapid.T) srcCase {
	var src []byte
	if rapid.IntRange(0, 3).Draw(t, "base") == 0 {
		src = rapid.SliceOfN(rapid.Byte(), 0, 40).Draw(t, "raw")
	} else {
		s, _ := genFile(t)
		src = []byte(s)
	}
	nm := rapid.IntRange(0, 3).Draw(t, "nmut")
	for i := 0; i < nm && len(src) > 0; i++ {
		pos := rapid.IntRange(0, len(src)-1).Draw(t, "pos")
		switch rapid.IntRange(0, 5).Draw(t, "mut") {
		case 0:
			src = src[:pos]
		case 1:
			src = append(src[:pos:pos], append([]byte{0}, src[pos:]...)...)
		case 2:
			src[pos] = rapid.Byte().Draw(t, "b")
		case 3:
			src = append(src[:pos:pos], append([]byte(rapid.SampledFrom([]string{"\"", "`", "/*", "//", "(", ")", "import", "\\", "\n", ";", "'"}).Draw(t, "ins")), src[pos:]...)...)
		case 4:
			src = append(src[:pos:pos], src[pos+1:]...)
		case 5:
			src = append(bom, src...)
		}
	}
	c := srcCase{Src: src}
	if rapid.IntRange(0, 7).Draw(t, "padded") == 5 {
		c.Pad = rapid.SampledFrom([]int{4000, 4095, 4096, 4097, 4097, 5000, 5000, 8192, 8192, 10000, 70000}).Draw(t, "pad")
	}
	return c
}

func TestAnyBytes(t *testing.T) {
	vt.Run(t, rec, vt.Prop[srcCase]{Kind: "any", Gen: genAny, Check: checkAny, Meta: func(c srcCase) vt.Meta {
		_, l, e, _ := readImports(c.bytes(), true)
		cl := []string{"strict-ok"}
		if e != nil {
			cl = []string{"strict-" + strings.ReplaceAll(e.Error(), " ", "-")}
		}
		if c.Pad > 0 {
			cl = append(cl, "padded-beyond-4096")
			if e != nil {
				cl = append(cl, "padded-after-error")
			}
		}
		return vt.Meta{NonTrivial: e != nil || len(l) > 0, Classes: cl}
	}}, vt.N(40000, 600000))
}

// Every truncation of a few generated valid files (exhaustive over the cut offset).
func TestTruncations(t *testing.T) {
	seeds := []string{
		"\xef\xbb\xbfpackage p\nimport \"fmt\"\n",
		"// c\npackage p; import ( /*/ x */ _ \"a\"; . `b`\n é \"c/d\" ) ; import \"e\"\nvar x = 1\n",
		"package p /*/ hello */ import \"y\"\n",
		"/* c */ package /**/ main\n\nimport (\n\t\"a\" // x\n\tb \"\\x62\"\n)\nfunc main() {}\n",
	}
	var n int64
	for _, s := range seeds {
		for i := 0; i <= len(s); i++ {
			n++
			vt.CheckOne(rec, "any", srcCase{Src: vt.B(s[:i])}, checkAny)
		}
	}
	rec.Eval(n)
	rec.NonTrivialDistinct(n)
	rec.Class("truncations", n)
}

var replayers = vt.Replayer{"valid": vt.Decode(checkValid), "any": vt.Decode(checkAny)}

func TestReplay(t *testing.T) { vt.Replay(t, rec, replayers) }

func FuzzReadImports(f *testing.F) {
	f.Add([]byte("\xef\xbb\xbfpackage p\nimport \"fmt\"\n"))
	f.Add([]byte("package p; import ( _ \"a\"; . `b` ) ; import \"e\"\nvar x = 1\n"))
	f.Add([]byte("package p /*/ hello */ import \"y\"\n"))
	f.Add([]byte("package p\nimport \"\x00\""))
	f.Fuzz(func(t *testing.T, x []byte) {
		c := srcCase{Src: x}
		if fl := vt.Guard("harness-panic", func() *vt.Fail { return checkAny(c) }); fl != nil {
			if rec.Report("any", fl, c) {
				t.Fatalf("%v", fl)
			}
		}
	})
}
