package c10

import (
	"fmt"
	"testing"

	"pgregory.net/rapid"

	par "verif/gen/parx"
	"verif/sched"
	"verif/vt"
)

var rec = vt.New("C10")

func TestMain(m *testing.M) { vt.Main(m, rec) }

type pop struct {
	Op     string `json:"op"` // do | get
	Key    int    `json:"key"`
	Yields int    `json:"yields"` // yields inside f (do only)
}

type cacheCase struct {
	Tasks   [][]pop `json:"tasks"`
	Mode    string  `json:"mode"`
	Sched   []uint8 `json:"sched,omitempty"`
	Prio    []uint8 `json:"prio,omitempty"`
	Changes []int   `json:"changes,omitempty"`
	// NilKeys: keys whose function returns nil (a legitimate value: Do must hand it to every caller and must not
	// take it for "not computed yet").
	NilKeys []int `json:"nil_keys,omitempty"`
	// PanicKeys: keys whose function panics (the caller recovers and goes on). The function has been invoked - once -
	// and never returns a value: the unchanged package leaves every other Do for that key waiting for good and Get
	// at nil; what must not happen is a second invocation.
	PanicKeys []int `json:"panic_keys,omitempty"`
}

func (c cacheCase) strategy() sched.Strategy {
	if c.Mode == "pct" {
		return &sched.PCT{Prio: c.Prio, Changes: c.Changes}
	}
	return &sched.Seq{Sched: c.Sched}
}

type outcome struct {
	fail    *vt.Fail
	overlap bool
	stuck   bool
}

type val struct {
	key, task, idx int
}

func run(c cacheCase, strat sched.Strategy, trace bool) outcome {
	var bad *vt.Fail
	setBad := func(f *vt.Fail) {
		if bad == nil {
			bad = f
		}
	}
	calls := map[int]int{}      // key -> invocations of f
	value := map[int]*val{}     // key -> the value returned by the (first) invocation
	fDone := map[int]int{}      // key -> step at which f returned (0 = not yet)
	inF := map[int]bool{}       // key -> f running now
	doReturned := map[int]int{} // key -> earliest step at which some Do(key) returned
	overlap := false
	insideDo := map[int]int{} // key -> number of tasks currently inside Do(key)
	inGet := map[int]string{} // scheduler task id -> description, while inside Get
	nilKey := map[int]bool{}
	for _, k := range c.NilKeys {
		nilKey[k] = true
	}
	panicKey := map[int]bool{}
	for _, k := range c.PanicKeys {
		panicKey[k] = true
	}
	panicked := false
	observer := func() {
		for id, what := range inGet {
			if sched.IsBlocked(id) {
				setBad(vt.Failf("get-blocked", "%s is blocked waiting for another task (Get must never block)", what))
			}
		}
	}
	res := sched.Run(strat, sched.Options{MaxSteps: 20000, KeepTrace: trace, Observer: observer}, func() {
		var pc par.Cache
		for ti, prog := range c.Tasks {
			ti, prog := ti, prog
			sched.GoNamed(fmt.Sprintf("t%d", ti), func() {
				for oi, o := range prog {
					o, oi := o, oi
					switch o.Op {
					case "do":
						insideDo[o.Key]++
						if insideDo[o.Key] >= 2 && inF[o.Key] {
							overlap = true
						}
						var got any
						recovered := false
						func() {
							defer func() {
								if r := recover(); r != nil {
									if r != "planned failure of f" {
										panic(r)
									}
									recovered = true
								}
							}()
							got = pc.Do(o.Key, func() any {
								calls[o.Key]++
								if calls[o.Key] > 1 {
									setBad(vt.Failf("f-invoked-twice", "f for key %d invoked %d times", o.Key, calls[o.Key]))
								}
								inF[o.Key] = true
								if insideDo[o.Key] >= 2 {
									overlap = true
								}
								for k := 0; k < o.Yields; k++ {
									sched.Yield()
									if insideDo[o.Key] >= 2 {
										overlap = true
									}
								}
								v := &val{o.Key, ti, oi}
								if value[o.Key] == nil {
									value[o.Key] = v
								}
								inF[o.Key] = false
								if panicKey[o.Key] {
									panicked = true
									panic("planned failure of f")
								}
								fDone[o.Key] = sched.Step() + 1
								if nilKey[o.Key] {
									return nil
								}
								return v
							})
						}()
						insideDo[o.Key]--
						if recovered {
							continue
						}
						if fDone[o.Key] == 0 {
							setBad(vt.Failf("do-returned-before-f-completed", "task %d: Do(%d) returned %v before the invocation of f completed", ti, o.Key, got))
						} else if nilKey[o.Key] {
							if got != nil {
								setBad(vt.Failf("do-wrong-value", "task %d: Do(%d) returned %v, the single invocation returned nil", ti, o.Key, got))
							}
						} else if got != any(value[o.Key]) {
							setBad(vt.Failf("do-wrong-value", "task %d: Do(%d) returned %v, the single invocation returned %v", ti, o.Key, got, value[o.Key]))
						}
						if doReturned[o.Key] == 0 {
							doReturned[o.Key] = sched.Step() + 1
						}
					case "get":
						startedAfterDo := doReturned[o.Key] != 0
						me := sched.Cur().ID
						inGet[me] = fmt.Sprintf("task %d in Get(%d)", ti, o.Key)
						got := pc.Get(o.Key)
						delete(inGet, me)
						switch {
						case nilKey[o.Key] || panicKey[o.Key]:
							if got != nil {
								setBad(vt.Failf("get-wrong-value", "task %d: Get(%d) returned %v; the function for that key returns nil", ti, o.Key, got))
							}
						case got == nil:
							if startedAfterDo {
								setBad(vt.Failf("get-nil-after-do-returned", "task %d: Get(%d) returned nil although a Do for that key had already returned", ti, o.Key))
							}
						case fDone[o.Key] == 0 || got != any(value[o.Key]):
							setBad(vt.Failf("get-wrong-value", "task %d: Get(%d) returned %v; f completed: %v, its value: %v", ti, o.Key, got, fDone[o.Key] != 0, value[o.Key]))
						}
					}
				}
			})
		}
	})
	o := outcome{overlap: overlap}
	ctx := ""
	if trace {
		tr := res.Trace
		if len(tr) > 100 {
			tr = tr[len(tr)-100:]
		}
		ctx = fmt.Sprintf("\ntrace: %v", tr)
	}
	switch {
	case res.Stuck:
		o.stuck = true
	case len(res.Panics) > 0:
		o.fail = vt.Failf("panic", "%s%s", res.Panics[0], ctx)
	case res.Deadlock && panicked:
		// expected: callers of Do for a key whose function panicked wait for good (Get never does: see the observer)
		if bad != nil {
			bad.Msg += ctx
			o.fail = bad
		}
	case res.Deadlock:
		// a task parked inside Get is a violation in itself; any deadlock is
		o.fail = vt.Failf("deadlock", "no task can run: %v%s", res.Blocked, ctx)
	case res.Overrun:
		o.fail = vt.Failf("no-termination", "still running after %d steps: %v%s", res.Steps, res.Blocked, ctx)
	case bad != nil:
		bad.Msg += ctx
		o.fail = bad
	}
	return o
}

func valid(c cacheCase) bool {
	if len(c.Tasks) == 0 || len(c.Tasks) > 8 {
		return false
	}
	for _, p := range c.Tasks {
		for _, o := range p {
			if o.Op != "do" && o.Op != "get" || o.Key < 0 || o.Key > 4 || o.Yields < 0 || o.Yields > 5 {
				return false
			}
		}
	}
	return true
}

var stuckSeen bool

func checkCache(c cacheCase) *vt.Fail {
	if !valid(c) {
		return nil
	}
	o := run(c, c.strategy(), false)
	if o.stuck {
		if !stuckSeen {
			stuckSeen = true
			rec.Infra("a task blocked outside the scheduler shims")
		}
		return nil
	}
	if o.fail != nil {
		if o2 := run(c, c.strategy(), true); o2.fail != nil {
			return o2.fail
		}
		return o.fail
	}
	return nil
}

func genProgs(t *rapid.T) [][]pop {
	nt := rapid.IntRange(2, 5).Draw(t, "ntasks")
	nk := rapid.IntRange(1, 3).Draw(t, "nkeys")
	var tasks [][]pop
	for i := 0; i < nt; i++ {
		n := rapid.IntRange(1, 4).Draw(t, "nops")
		var p []pop
		for j := 0; j < n; j++ {
			o := pop{Key: rapid.IntRange(0, nk-1).Draw(t, "key")}
			if rapid.IntRange(0, 2).Draw(t, "op") == 2 {
				o.Op = "get"
			} else {
				o.Op = "do"
				o.Yields = rapid.IntRange(0, 3).Draw(t, "yields")
			}
			p = append(p, o)
		}
		tasks = append(tasks, p)
	}
	return tasks
}

func genCache(t *rapid.T) cacheCase {
	c := cacheCase{Tasks: genProgs(t)}
	if rapid.IntRange(0, 3).Draw(t, "nilkeys") == 2 {
		c.NilKeys = rapid.SliceOfNDistinct(rapid.IntRange(0, 3), 1, 2, rapid.ID[int]).Draw(t, "nilkey")
	}
	if rapid.IntRange(0, 5).Draw(t, "panickeys") == 4 {
		c.PanicKeys = []int{rapid.IntRange(0, 2).Draw(t, "panickey")}
	}
	if rapid.IntRange(0, 3).Draw(t, "mode") == 0 {
		c.Mode = "pct"
		c.Prio = rapid.SliceOfN(rapid.Byte(), 1, 6).Draw(t, "prio")
		c.Changes = rapid.SliceOfN(rapid.IntRange(0, 80), 0, 4).Draw(t, "changes")
	} else {
		c.Mode = "seq"
		steps := 10
		for _, p := range c.Tasks {
			steps += 8 * len(p)
		}
		c.Sched = rapid.SliceOfN(rapid.Uint8Range(0, 5), steps, steps+40).Draw(t, "sched")
	}
	return c
}

func metaCache(c cacheCase) vt.Meta {
	o := run(c, c.strategy(), false)
	cl := []string{"mode=" + c.Mode, fmt.Sprintf("tasks=%d", len(c.Tasks))}
	if o.overlap {
		cl = append(cl, "overlap-in-do-while-f-runs")
	}
	return vt.Meta{NonTrivial: o.overlap, Classes: cl}
}

func TestRandomSchedules(t *testing.T) {
	vt.Run(t, rec, vt.Prop[cacheCase]{Kind: "cache", Gen: genCache, Check: checkCache, Meta: metaCache}, vt.N(15000, 400000))
}

type exCase struct {
	Tasks      [][]pop `json:"tasks"`
	MaxPreempt int     `json:"max_preempt"`
}

var exRuns, exOverlap, exTrunc int64

func checkExhaustive(c exCase) *vt.Fail {
	cc := cacheCase{Tasks: c.Tasks}
	if !valid(cc) {
		return nil
	}
	e := &sched.Exhaustive{MaxPreempt: c.MaxPreempt, Budget: 300000}
	for e.Next() {
		o := run(cc, e, false)
		if o.stuck {
			rec.Infra("task blocked outside the shims during exhaustive enumeration")
			return nil
		}
		if o.fail != nil {
			o.fail.Msg = fmt.Sprintf("(execution %d of the bounded enumeration, <=%d preemptions) %s", e.Runs, c.MaxPreempt, o.fail.Msg)
			return o.fail
		}
		if o.overlap {
			exOverlap++
		}
	}
	exRuns += int64(e.Runs)
	if e.Truncated {
		exTrunc++
	}
	return nil
}

func TestExhaustive(t *testing.T) {
	maxP := 3
	if vt.Thorough() {
		maxP = 4
	}
	d := func(k, y int) pop { return pop{Op: "do", Key: k, Yields: y} }
	g := func(k int) pop { return pop{Op: "get", Key: k} }
	configs := [][][]pop{
		{{d(0, 0)}, {d(0, 0)}},
		{{d(0, 1)}, {d(0, 1)}},
		{{d(0, 1)}, {g(0)}},
		{{d(0, 1), g(0)}, {g(0), d(0, 0)}},
		{{d(0, 1)}, {d(0, 0)}, {d(0, 0)}},
		{{d(0, 1)}, {d(0, 0)}, {g(0)}},
		{{d(0, 0), d(1, 0)}, {d(1, 0), d(0, 0)}},
		{{d(0, 1), g(0)}, {d(0, 1), g(0)}, {g(0), g(0)}},
	}
	for i, cfg := range configs {
		if i%vt.NShards() != vt.Shard() {
			continue
		}
		c := exCase{Tasks: cfg, MaxPreempt: maxP}
		before := exRuns
		ok := vt.CheckOne(rec, "exhaustive", c, checkExhaustive)
		rec.Sample("exhaustive", 2, map[string]any{"case": c, "executions": exRuns - before})
		if !ok {
			return
		}
	}
	rec.Eval(exRuns)
	rec.NonTrivialDistinct(exOverlap)
	rec.Class("exhaustive:executions", exRuns)
	rec.Class("exhaustive:overlap-in-do-while-f-runs", exOverlap)
	rec.Class("exhaustive:configs-truncated-by-budget", exTrunc)
	if exTrunc == 0 {
		rec.Exhaustive(fmt.Sprintf("all schedules with <= %d preemptions of %d small Do/Get programs (this shard: %d executions)", maxP, len(configs), exRuns))
	}
}

var replayers = vt.Replayer{"cache": vt.Decode(checkCache), "exhaustive": vt.Decode(checkExhaustive)}

func TestReplay(t *testing.T) { vt.Replay(t, rec, replayers) }
