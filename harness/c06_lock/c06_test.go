package c06

import (
	"bytes"
	"encoding/json"
	"fmt"
	"io"
	"os"
	"path/filepath"
	"runtime"
	"strings"
	"sync"
	"sync/atomic"
	"syscall"
	"testing"
	"time"

	"github.com/rogpeppe/go-internal/lockedfile"
	"pgregory.net/rapid"

	"verif/cachekit"
	"verif/rig"
	"verif/vt"
)

var rec = vt.New("C06")

func TestMain(m *testing.M) {
	if os.Getenv("VERIF_ROLE") == "c06-worker" {
		workerMain()
		return
	}
	vt.Main(m, rec)
}

var writeEntries = []string{"openfile-wronly", "openfile-rdwr", "openfile-wronly-create", "openfile-rdwr-create-trunc", "openfile-wronly-append", "create", "edit", "mutex", "transform", "write", "mutex-shared"}

// sharedMutexes holds one *lockedfile.Mutex per path for the whole process: the "mutex-shared" entry point locks that
// value, so goroutines of one process queue on the same Mutex (and successive acquisitions reuse it).
var sharedMutexes sync.Map

func sharedMutex(path string) *lockedfile.Mutex {
	m, _ := sharedMutexes.LoadOrStore(path, lockedfile.MutexAt(path))
	return m.(*lockedfile.Mutex)
}

var readEntries = []string{"open", "openfile-rdonly", "read", "openfile-rdonly-trunc"}

// refusing entries are calls that take the lock and then fail at a later step of the same call (the truncation of a
// file opened read-only is refused by the kernel): they return an error, and then nothing may be held.
var refusing = map[string]bool{"openfile-rdonly-trunc": true}

func isWrite(e string) bool {
	for _, w := range writeEntries {
		if w == e {
			return true
		}
	}
	return false
}
func callScoped(e string) bool { return e == "transform" || e == "write" || e == "read" }

// acquire obtains the lock through entry point e and returns the release function.
// For call-scoped entry points inside is run while the lock is held and release is nil.
func acquire(path, e string, inside func()) (release func() error, err error) {
	release, _, err = acquireFd(path, e, inside)
	return release, err
}

// acquireFd is acquire that also reports the descriptor behind the returned handle (-1 when the entry point hides it).
func acquireFd(path, e string, inside func()) (release func() error, fd int, err error) {
	fd = -1
	var f *lockedfile.File
	switch e {
	case "openfile-wronly":
		f, err = lockedfile.OpenFile(path, os.O_WRONLY, 0)
	case "openfile-rdwr":
		f, err = lockedfile.OpenFile(path, os.O_RDWR, 0)
	case "openfile-wronly-create":
		f, err = lockedfile.OpenFile(path, os.O_WRONLY|os.O_CREATE, 0o666)
	case "openfile-rdwr-create-trunc":
		f, err = lockedfile.OpenFile(path, os.O_RDWR|os.O_CREATE|os.O_TRUNC, 0o666)
	case "openfile-wronly-append":
		f, err = lockedfile.OpenFile(path, os.O_WRONLY|os.O_APPEND, 0)
	case "create":
		f, err = lockedfile.Create(path)
	case "edit":
		f, err = lockedfile.Edit(path)
	case "open":
		f, err = lockedfile.Open(path)
	case "openfile-rdonly":
		f, err = lockedfile.OpenFile(path, os.O_RDONLY, 0)
	case "openfile-rdonly-trunc":
		f, err = lockedfile.OpenFile(path, os.O_RDONLY|os.O_TRUNC, 0)
	case "mutex":
		unlock, err := lockedfile.MutexAt(path).Lock()
		if err != nil {
			return nil, -1, err
		}
		return func() error { unlock(); return nil }, -1, nil
	case "mutex-shared":
		unlock, err := sharedMutex(path).Lock()
		if err != nil {
			return nil, -1, err
		}
		return func() error { unlock(); return nil }, -1, nil
	case "transform":
		return nil, -1, lockedfile.Transform(path, func(old []byte) ([]byte, error) {
			inside()
			return append(old[:len(old):len(old)], 'x'), nil
		})
	case "write":
		return nil, -1, lockedfile.Write(path, &hookReader{hook: inside, r: strings.NewReader("written\n")}, 0o666)
	case "read":
		_, err := lockedfile.Read(path)
		return nil, -1, err
	default:
		return nil, -1, fmt.Errorf("unknown entry %q", e)
	}
	if err != nil {
		return nil, -1, err
	}
	return f.Close, int(f.Fd()), nil
}

type hookReader struct {
	hook func()
	r    io.Reader
	done bool
}

func (h *hookReader) Read(p []byte) (int, error) {
	if !h.done {
		h.done = true
		h.hook()
	}
	return h.r.Read(p)
}

// probe reports whether a non-blocking exclusive / shared flock on a fresh descriptor succeeds.
func probe(path string) (ex, sh bool, err error) {
	f, err := os.Open(path)
	if err != nil {
		return false, false, err
	}
	defer f.Close()
	if e := syscall.Flock(int(f.Fd()), syscall.LOCK_EX|syscall.LOCK_NB); e == nil {
		ex = true
		syscall.Flock(int(f.Fd()), syscall.LOCK_UN)
	} else if e != syscall.EWOULDBLOCK {
		return false, false, e
	}
	if e := syscall.Flock(int(f.Fd()), syscall.LOCK_SH|syscall.LOCK_NB); e == nil {
		sh = true
		syscall.Flock(int(f.Fd()), syscall.LOCK_UN)
	} else if e != syscall.EWOULDBLOCK {
		return false, false, e
	}
	return ex, sh, nil
}

// ---- (1) deterministic lock-state model ----

type mop struct {
	Op     string `json:"op"` // acquire | release
	Path   int    `json:"path"`
	Entry  string `json:"entry,omitempty"`
	Holder int    `json:"holder,omitempty"`
	// Inherited: a copy of the holder's descriptor stays open elsewhere until the end of the case, as it does in a child
	// process that inherited it (ExtraFiles, or the fork-to-exec window of any concurrent exec). Close must still release.
	Inherited bool `json:"inherited,omitempty"`
}
type modelCase struct {
	Ops []mop `json:"ops"`
}

type holder struct {
	path    int
	write   bool
	entry   string
	release func() error
}

var seq int64

func checkModel(c modelCase) *vt.Fail {
	d := filepath.Join(cachekit.Scratch(), fmt.Sprintf("c06m-%d-%d", os.Getpid(), atomic.AddInt64(&seq, 1)))
	os.MkdirAll(d, 0o777)
	defer os.RemoveAll(d)
	paths := []string{filepath.Join(d, "p0"), filepath.Join(d, "p1"), filepath.Join(d, "p2"), filepath.Join(d, "p3dir")}
	for _, p := range paths[:3] {
		os.WriteFile(p, []byte("initial\n"), 0o666)
	}
	os.MkdirAll(paths[3], 0o777) // a path that cannot be opened for writing: write entry points may refuse it
	var holders, released []*holder
	defer func() {
		for _, h := range holders {
			h.release()
		}
	}()
	var trail []string
	expect := func(step string) *vt.Fail {
		for pi, p := range paths {
			writers, readers := 0, 0
			for _, h := range holders {
				if h.path == pi {
					if h.write {
						writers++
					} else {
						readers++
					}
				}
			}
			ex, sh, err := probe(p)
			if err != nil {
				return vt.Failf("HARNESS-probe", "%v", err)
			}
			wantEx, wantSh := writers == 0 && readers == 0, writers == 0
			if ex != wantEx || sh != wantSh {
				state := "unlocked"
				if writers > 0 {
					state = "write-locked"
				} else if readers > 0 {
					state = fmt.Sprintf("read-locked by %d", readers)
				}
				return vt.Failf("lock-state-mismatch", "after %s: p%d should be %s, but a non-blocking exclusive probe %s and a shared probe %s. history: %s",
					step, pi, state, okStr(ex), okStr(sh), strings.Join(trail, " "))
			}
		}
		return nil
	}
	for i, o := range c.Ops {
		if o.Path < 0 || o.Path > 3 {
			continue
		}
		switch o.Op {
		case "acquire":
			w := isWrite(o.Entry)
			if !w && !contains(readEntries, o.Entry) {
				continue
			}
			compatible := true
			for _, h := range holders {
				if h.path == o.Path && (w || h.write) {
					compatible = false
				}
			}
			if !compatible {
				continue // would block: never generated on purpose, skipped on replay of shrunk cases
			}
			step := fmt.Sprintf("%d:acquire(p%d,%s)", i, o.Path, o.Entry)
			trail = append(trail, step)
			var insideFail *vt.Fail
			// nobody holds a conflicting lock, so the call returns at once - unless something that was never released
			// (by an earlier call that failed, say) is in its way: then it sits there with no holder to wait for
			type acq struct {
				rel func() error
				fd  int
				err error
			}
			done := make(chan acq, 1)
			go func() {
				rel, fd, err := acquireFd(paths[o.Path], o.Entry, func() {
					// call-scoped write entry: the lock must be held right now
					ex, sh, perr := probe(paths[o.Path])
					if perr == nil && (ex || sh) {
						insideFail = vt.Failf("not-locked-inside-call", "inside the %s callback on p%d the file is not write-locked (exclusive probe %s, shared probe %s). history: %s", o.Entry, o.Path, okStr(ex), okStr(sh), strings.Join(trail, " "))
					}
				})
				done <- acq{rel, fd, err}
			}()
			var rel func() error
			var fd int
			var err error
			if a, ok := vt.Patience(rec, done, 8*time.Second); ok {
				rel, fd, err = a.rel, a.fd, a.err
			} else {
				ex, sh, _ := probe(paths[o.Path])
				return vt.Failf("blocked-with-no-holder", "%s has not returned after 8s although nothing holds a conflicting lock (probes of the file: exclusive %s, shared %s). history: %s", step, okStr(ex), okStr(sh), strings.Join(trail, " "))
			}
			if err != nil && (o.Path == 3 || refusing[o.Entry]) {
				// refusing to lock a directory is fine: then nothing is held
				if f := expect(step + "(refused)"); f != nil {
					return f
				}
				continue
			}
			if err != nil {
				return vt.Failf("HARNESS-acquire-failed", "%s failed with an error (the statement only covers calls that return a lock): %v", step, err)
			}
			if insideFail != nil {
				return insideFail
			}
			if rel != nil {
				holders = append(holders, &holder{o.Path, w, o.Entry, rel})
				if o.Inherited && fd >= 0 {
					if d, err := syscall.Dup(fd); err == nil {
						syscall.CloseOnExec(d)
						defer syscall.Close(d)
						step += "+inherited"
						trail[len(trail)-1] = step
					}
				}
			}
			if f := expect(step); f != nil {
				return f
			}
		case "release":
			if len(holders) == 0 {
				continue
			}
			k := o.Holder % len(holders)
			if k < 0 {
				k = 0
			}
			h := holders[k]
			step := fmt.Sprintf("%d:release(p%d,%s)", i, h.path, h.entry)
			trail = append(trail, step)
			if err := h.release(); err != nil {
				return vt.Failf("release-failed", "%s: %v", step, err)
			}
			holders = append(holders[:k:k], holders[k+1:]...)
			if h.entry != "mutex" && h.entry != "mutex-shared" {
				released = append(released, h)
			}
			if f := expect(step); f != nil {
				return f
			}
		case "reclose":
			// Close may be called again on a File that is already closed (it then reports an error): that call must
			// not touch the locks of anybody else, even if its descriptor number has been reused in the meantime
			if len(released) == 0 {
				continue
			}
			h := released[((o.Holder%len(released))+len(released))%len(released)]
			step := fmt.Sprintf("%d:close-again(p%d,%s)", i, h.path, h.entry)
			trail = append(trail, step)
			var cerr error
			if f := vt.Guard("close-again-panic", func() *vt.Fail { cerr = h.release(); return nil }); f != nil {
				return f
			}
			if cerr == nil {
				return vt.Failf("release-failed", "%s: a second Close of the same File returned nil (documented: all calls after the first return a non-nil error). history: %s", step, strings.Join(trail, " "))
			}
			if f := expect(step); f != nil {
				return f
			}
		}
	}
	return nil
}

func okStr(b bool) string {
	if b {
		return "succeeded"
	}
	return "failed"
}
func contains(xs []string, x string) bool {
	for _, y := range xs {
		if x == y {
			return true
		}
	}
	return false
}

func genModel(t *rapid.T) modelCase {
	var c modelCase
	n := rapid.IntRange(1, 25).Draw(t, "nops")
	for i := 0; i < n; i++ {
		o := mop{Path: rapid.SampledFrom([]int{0, 1, 2, 0, 1, 2, 3}).Draw(t, "path")}
		if k := rapid.IntRange(0, 8).Draw(t, "op"); k <= 2 {
			o.Op = "release"
			o.Holder = rapid.IntRange(0, 7).Draw(t, "holder")
		} else if k == 5 {
			o.Op = "reclose"
			o.Holder = rapid.IntRange(0, 7).Draw(t, "holder")
		} else {
			o.Op = "acquire"
			o.Inherited = rapid.IntRange(0, 3).Draw(t, "inherited") == 0
			if rapid.Bool().Draw(t, "w") {
				o.Entry = rapid.SampledFrom(writeEntries).Draw(t, "wentry")
			} else {
				o.Entry = rapid.SampledFrom(readEntries).Draw(t, "rentry")
			}
		}
		c.Ops = append(c.Ops, o)
	}
	return c
}

func TestLockStateModel(t *testing.T) {
	vt.Run(t, rec, vt.Prop[modelCase]{Kind: "model", Gen: genModel, Check: checkModel, Meta: func(c modelCase) vt.Meta {
		acq := 0
		entries := map[string]bool{}
		for _, o := range c.Ops {
			if o.Op == "acquire" {
				acq++
				entries[o.Entry] = true
				if o.Inherited && !callScoped(o.Entry) && o.Entry != "mutex" {
					entries["descriptor-inherited"] = true
				}
			}
		}
		var cl []string
		for e := range entries {
			cl = append(cl, "entry="+e)
		}
		return vt.Meta{NonTrivial: acq >= 1, Classes: cl}
	}, Reduce: func(c modelCase) []modelCase {
		var out []modelCase
		for _, ops := range vt.DropOne(c.Ops) {
			out = append(out, modelCase{ops})
		}
		return out
	}}, vt.N(2500, 40000))
}

// ---- (2) contention with an exact overlap witness ----

type step struct {
	Path  int    `json:"path"`
	Entry string `json:"entry"`
	Spin  int    `json:"spin"`
}
type contCase struct {
	Procs int      `json:"procs"`
	Progs [][]step `json:"progs"` // one program per goroutine; goroutine g runs in process g % procs
}

const (
	cWriters   = 0 // +path
	cReaders   = 4 // +path
	cContended = 8
	cAcquired  = 9
)

type workerReport struct {
	Fail *vt.Fail `json:"fail,omitempty"`
}

func runProgram(sh *rig.Shared, paths []string, prog []step, who string) *vt.Fail {
	for si, s := range prog {
		if s.Path < 0 || s.Path >= len(paths) {
			continue
		}
		w := isWrite(s.Entry)
		if !w && !contains(readEntries, s.Entry) {
			continue
		}
		var bad *vt.Fail
		what := fmt.Sprintf("%s step %d %s(p%d)", who, si, s.Entry, s.Path)
		critical := func() {
			sh.Add(cAcquired, 1)
			if w {
				n := sh.Add(cWriters+s.Path, 1)
				r := sh.Load(cReaders + s.Path)
				if n != 1 || r != 0 {
					bad = vt.Failf("overlap", "%s holds the write lock but %d writer(s) and %d reader(s) are inside their critical sections", what, n, r)
				}
				for k := 0; k < s.Spin; k++ {
					runtime.Gosched()
					if k%8 == 7 {
						time.Sleep(50 * time.Microsecond)
					}
				}
				n2, r2 := sh.Load(cWriters+s.Path), sh.Load(cReaders+s.Path)
				if bad == nil && (n2 != 1 || r2 != 0) {
					bad = vt.Failf("overlap", "%s still holds the write lock but now %d writer(s) and %d reader(s) are inside", what, n2, r2)
				}
				sh.Add(cWriters+s.Path, -1)
			} else {
				sh.Add(cReaders+s.Path, 1)
				if n := sh.Load(cWriters + s.Path); n != 0 {
					bad = vt.Failf("overlap", "%s holds a read lock but %d writer(s) are inside their critical sections", what, n)
				}
				for k := 0; k < s.Spin; k++ {
					runtime.Gosched()
				}
				if n := sh.Load(cWriters + s.Path); bad == nil && n != 0 {
					bad = vt.Failf("overlap", "%s still holds a read lock but %d writer(s) entered", what, n)
				}
				sh.Add(cReaders+s.Path, -1)
			}
		}
		if sh.Load(cWriters+s.Path) > 0 || (w && sh.Load(cReaders+s.Path) > 0) {
			sh.Add(cContended, 1)
		}
		if s.Entry == "read" {
			// Read has no callback: nothing to witness from inside; just exercise it
			if _, err := lockedfile.Read(paths[s.Path]); err != nil {
				return vt.Failf("HARNESS-acquire-failed", "%s: %v", what, err)
			}
			continue
		}
		rel, err := acquire(paths[s.Path], s.Entry, critical)
		if err != nil && refusing[s.Entry] {
			continue // took the lock, failed, must have let go: the others' witnesses will tell if it did not
		}
		if err != nil {
			return vt.Failf("HARNESS-acquire-failed", "%s: %v", what, err)
		}
		if rel != nil {
			critical()
			if err := rel(); err != nil {
				return vt.Failf("release-failed", "%s: %v", what, err)
			}
		}
		if bad != nil {
			return bad
		}
	}
	return nil
}

func workerMain() {
	var c contCase
	json.Unmarshal([]byte(os.Getenv("VERIF_C06_CASE")), &c)
	d := os.Getenv("VERIF_C06_DIR")
	var me int
	fmt.Sscan(os.Getenv("VERIF_C06_PROC"), &me)
	sh, err := rig.CreateShared(filepath.Join(d, "side"), false)
	if err != nil {
		fmt.Println("worker: ", err)
		os.Exit(3)
	}
	paths := []string{filepath.Join(d, "p0"), filepath.Join(d, "p1"), filepath.Join(d, "p2")}
	// start barrier: wait for the go file
	for i := 0; i < 20000; i++ {
		if _, err := os.Stat(filepath.Join(d, "go")); err == nil {
			break
		}
		time.Sleep(100 * time.Microsecond)
	}
	var wg sync.WaitGroup
	var mu sync.Mutex
	var first *vt.Fail
	for g, prog := range c.Progs {
		if g%c.Procs != me {
			continue
		}
		wg.Add(1)
		go func(g int, prog []step) {
			defer wg.Done()
			if f := runProgram(sh, paths, prog, fmt.Sprintf("process %d goroutine %d", me, g)); f != nil {
				mu.Lock()
				if first == nil {
					first = f
				}
				mu.Unlock()
			}
		}(g, prog)
	}
	wg.Wait()
	rig.Emit(workerReport{Fail: first})
}

var contendedTotal, acquiredTotal int64

func checkContention(c contCase) *vt.Fail {
	if c.Procs < 1 || c.Procs > 6 || len(c.Progs) == 0 || len(c.Progs) > 32 {
		return nil
	}
	d := filepath.Join(cachekit.Scratch(), fmt.Sprintf("c06c-%d-%d", os.Getpid(), atomic.AddInt64(&seq, 1)))
	os.MkdirAll(d, 0o777)
	defer os.RemoveAll(d)
	for _, p := range []string{"p0", "p1", "p2"} {
		os.WriteFile(filepath.Join(d, p), []byte("initial\n"), 0o666)
	}
	sh, err := rig.CreateShared(filepath.Join(d, "side"), true)
	if err != nil {
		return vt.Failf("HARNESS-shared", "%v", err)
	}
	defer sh.Close()
	cj, _ := json.Marshal(c)
	var ws []rig.Worker
	for p := 0; p < c.Procs; p++ {
		ws = append(ws, rig.Worker{Role: "c06-worker", Env: []string{"VERIF_C06_CASE=" + string(cj), "VERIF_C06_DIR=" + d, fmt.Sprintf("VERIF_C06_PROC=%d", p)}})
	}
	go func() {
		time.Sleep(30 * time.Millisecond)
		os.WriteFile(filepath.Join(d, "go"), nil, 0o666)
	}()
	reports, errs, outs := rig.RunWorkers(ws, 60*time.Second)
	var fail *vt.Fail
	for i := range ws {
		if errs[i] != nil || len(reports[i]) == 0 {
			rec.Infra("worker %d: %v: %s", i, errs[i], tail(outs[i]))
			continue
		}
		var r workerReport
		json.Unmarshal([]byte(reports[i][len(reports[i])-1]), &r)
		if r.Fail != nil && fail == nil {
			fail = r.Fail
		}
	}
	lastContended = int64(sh.Load(cContended))
	contendedTotal += lastContended
	acquiredTotal += int64(sh.Load(cAcquired))
	return fail
}

var lastContended int64

func tail(s string) string {
	if len(s) > 800 {
		return s[len(s)-800:]
	}
	return s
}

func genContention(t *rapid.T) contCase {
	c := contCase{Procs: rapid.IntRange(2, 4).Draw(t, "procs")}
	ng := c.Procs * rapid.IntRange(2, 5).Draw(t, "gpp")
	npaths := rapid.IntRange(1, 3).Draw(t, "npaths")
	for g := 0; g < ng; g++ {
		var prog []step
		for k, n := 0, rapid.IntRange(3, 12).Draw(t, "nsteps"); k < n; k++ {
			s := step{Path: rapid.IntRange(0, npaths-1).Draw(t, "path"), Spin: rapid.IntRange(0, 20).Draw(t, "spin")}
			if rapid.IntRange(0, 2).Draw(t, "rw") == 0 {
				s.Entry = rapid.SampledFrom(readEntries).Draw(t, "rentry")
			} else {
				s.Entry = rapid.SampledFrom(writeEntries).Draw(t, "wentry")
			}
			prog = append(prog, s)
		}
		c.Progs = append(c.Progs, prog)
	}
	return c
}

func TestContention(t *testing.T) {
	vt.Run(t, rec, vt.Prop[contCase]{Kind: "contention", Gen: genContention, Check: checkContention, Meta: func(c contCase) vt.Meta {
		return vt.Meta{NonTrivial: lastContended >= 2, Classes: []string{fmt.Sprintf("procs=%d", c.Procs)}}
	}}, vt.N(20, 300))
	rec.Class("contention:acquisitions", acquiredTotal)
	rec.Class("contention:contended-acquisitions", contendedTotal)
}

// ---- hand-over: a blocked acquirer returns only after the release ----

type handCase struct {
	Holder string `json:"holder"`
	Waiter string `json:"waiter"`
	HoldMS int    `json:"hold_ms"`
}

func checkHandover(c handCase) *vt.Fail {
	hw, ww := isWrite(c.Holder), isWrite(c.Waiter)
	if callScoped(c.Holder) || (!hw && !ww) || (!hw && !contains(readEntries, c.Holder)) || (!ww && !contains(readEntries, c.Waiter)) {
		return nil
	}
	d := filepath.Join(cachekit.Scratch(), fmt.Sprintf("c06h-%d-%d", os.Getpid(), atomic.AddInt64(&seq, 1)))
	os.MkdirAll(d, 0o777)
	defer os.RemoveAll(d)
	p := filepath.Join(d, "p0")
	os.WriteFile(p, []byte("initial\n"), 0o666)
	rel, err := acquire(p, c.Holder, nil)
	if err != nil {
		return vt.Failf("HARNESS-acquire-failed", "%v", err)
	}
	var released int32
	var enteredEarly int32
	done := make(chan error, 1)
	go func() {
		inside := func() {
			if atomic.LoadInt32(&released) == 0 {
				atomic.StoreInt32(&enteredEarly, 1)
			}
		}
		r2, err := acquire(p, c.Waiter, inside)
		if err == nil && r2 != nil {
			inside()
			err = r2()
		}
		done <- err
	}()
	rig.WaitBlocked(1, 50*time.Millisecond)
	time.Sleep(time.Duration(c.HoldMS) * time.Millisecond)
	select {
	case <-done:
		rel()
		return vt.Failf("acquired-while-held", "%s on a file held by %s returned while the holder had not released", c.Waiter, c.Holder)
	default:
	}
	atomic.StoreInt32(&released, 1)
	if err := rel(); err != nil {
		return vt.Failf("release-failed", "%v", err)
	}
	select {
	case err := <-done:
		if err != nil {
			return vt.Failf("HARNESS-acquire-failed", "waiter: %v", err)
		}
	case <-time.After(90 * time.Second):
		rec.Infra("waiter did not return within 90 s after the release (inconclusive)")
		return nil
	}
	if atomic.LoadInt32(&enteredEarly) != 0 {
		return vt.Failf("acquired-while-held", "%s entered its critical section while %s still held the lock", c.Waiter, c.Holder)
	}
	return nil
}

func TestHandover(t *testing.T) {
	if rec.Violations() > 0 {
		t.Skip("a violation was already recorded in this run")
	}
	var n int64
	for _, h := range append(append([]string{}, writeEntries...), readEntries...) {
		for _, w := range append(append([]string{}, writeEntries...), readEntries...) {
			if refusing[h] || refusing[w] {
				continue
			}
			if callScoped(h) || (!isWrite(h) && !isWrite(w)) {
				continue
			}
			n++
			if int(n)%vt.NShards() != vt.Shard() {
				continue
			}
			rec.Eval(1)
			rec.NonTrivialDistinct(1)
			vt.CheckOne(rec, "handover", handCase{Holder: h, Waiter: w, HoldMS: 3}, checkHandover)
		}
	}
	rec.Class("handover:pairs", n)
}

var replayers = vt.Replayer{"model": vt.Decode(checkModel), "contention": vt.Decode(checkContention), "handover": vt.Decode(checkHandover), "flockfault": vt.Decode(checkFlockFault), "crosspath": vt.Decode(checkCrossPath), "failedlock": vt.Decode(checkFailedLockWhileHeld), "openfault": vt.Decode(checkOpenFault)}

func TestReplay(t *testing.T) { vt.Replay(t, rec, replayers) }

var _ = bytes.Equal
