package c06

// Locks on different paths are independent: the holder of A who asks for B gets it as soon as B is free, however many
// others of the same process are waiting for A.

import (
	"fmt"
	"os"
	"path/filepath"
	"sync/atomic"
	"testing"
	"time"

	"github.com/rogpeppe/go-internal/lockedfile"

	"verif/cachekit"
	"verif/rig"
	"verif/vt"
)

type crossCase struct {
	Waiters int `json:"waiters"` // goroutines of this process blocked on A while its holder asks for B
}

func checkCrossPath(c crossCase) *vt.Fail {
	if c.Waiters < 1 || c.Waiters > 40 {
		return nil
	}
	d := filepath.Join(cachekit.Scratch(), fmt.Sprintf("c06x-%d-%d", os.Getpid(), atomic.AddInt64(&seq, 1)))
	os.MkdirAll(d, 0o777)
	defer os.RemoveAll(d)
	pa, pb := filepath.Join(d, "A"), filepath.Join(d, "B")
	os.WriteFile(pa, []byte("a\n"), 0o666)
	os.WriteFile(pb, []byte("b\n"), 0o666)
	fa, err := lockedfile.Edit(pa)
	if err != nil {
		return vt.Failf("HARNESS-edit", "%v", err)
	}
	base := rig.BlockedFlockWaiters()
	waitersDone := make(chan error, c.Waiters)
	for i := 0; i < c.Waiters; i++ {
		go func() {
			f, err := lockedfile.Edit(pa)
			if err == nil {
				err = f.Close()
			}
			waitersDone <- err
		}()
	}
	if !rig.WaitBlocked(base+c.Waiters, 5*time.Second) {
		// (not all of them visibly in flock yet - a slow machine, or waiters queued somewhere else: go on with those that
		// are; the assertion below does not depend on the count)
		rec.Class("cross-path:not-all-waiters-seen-in-flock", 1)
	}
	fb0, err := lockedfile.Edit(pb) // somebody else has B for a moment
	if err != nil {
		fa.Close()
		return vt.Failf("HARNESS-edit", "%v", err)
	}
	got := make(chan error, 1)
	var fb *lockedfile.File
	go func() {
		var err error
		fb, err = lockedfile.Edit(pb) // the holder of A asks for B
		got <- err
	}()
	time.Sleep(30 * time.Millisecond)
	fb0.Close()
	if err, ok := vt.Patience(rec, got, 8*time.Second); ok {
		if err != nil {
			fa.Close()
			return vt.Failf("HARNESS-edit", "%v", err)
		}
	} else {
		ex, sh, _ := probe(pb)
		// (A stays locked and the goroutines stay where they are: nothing more can be done with this process's locks)
		return vt.Failf("blocked-with-no-holder", "the holder of A asked for B while %d goroutines of the same process were waiting for A; B was released 8s ago and nothing holds it (probes: exclusive %s, shared %s), yet the call has not returned", c.Waiters, okStr(ex), okStr(sh))
	}
	fb.Close()
	fa.Close()
	for i := 0; i < c.Waiters; i++ {
		if _, ok := vt.Patience(rec, waitersDone, 20*time.Second); !ok {
			return vt.Failf("blocked-with-no-holder", "A was released but after 20s only %d of its %d waiters have had their turn", i, c.Waiters)
		}
	}
	return nil
}

func TestCrossPathLiveness(t *testing.T) {
	var n int64
	for i, w := range []int{3, 9, 12, 20} {
		if i%vt.NShards() != vt.Shard() {
			continue
		}
		n++
		if !vt.CheckOne(rec, "crosspath", crossCase{Waiters: w}, checkCrossPath) {
			return
		}
	}
	rec.Eval(n)
	rec.NonTrivialDistinct(n)
	rec.Class("cross-path:cases", n)
}

// ---- a Lock that fails while the same Mutex value is held ----

type failedLockCase struct {
	Fails int `json:"fails"` // Lock calls on the held Mutex that fail (the lock file's directory is away for a moment)
}

func checkFailedLockWhileHeld(c failedLockCase) *vt.Fail {
	if c.Fails < 1 || c.Fails > 5 {
		return nil
	}
	base := filepath.Join(cachekit.Scratch(), fmt.Sprintf("c06f-%d-%d", os.Getpid(), atomic.AddInt64(&seq, 1)))
	d := filepath.Join(base, "dir")
	os.MkdirAll(d, 0o777)
	defer os.RemoveAll(base)
	p := filepath.Join(d, "lock")
	m := lockedfile.MutexAt(p)
	unlock, err := m.Lock()
	if err != nil {
		return vt.Failf("HARNESS-lock", "%v", err)
	}
	// while it is held, further Lock calls on the same value cannot even open the file: its directory has been moved
	away := d + ".away"
	if err := os.Rename(d, away); err != nil {
		unlock()
		return vt.Failf("HARNESS-rename", "%v", err)
	}
	for i := 0; i < c.Fails; i++ {
		done := make(chan error, 1)
		go func() {
			u, err := m.Lock()
			if err == nil {
				u()
			}
			done <- err
		}()
		premise := true
		select {
		case err := <-done:
			premise = err != nil
		case <-time.After(time.Second):
			premise = false
		}
		if !premise {
			// The attempt did not fail: it went through (an implementation may create the missing directory) or it is
			// waiting for the Mutex, which is held - both are within the property. Nothing to observe here, then.
			os.RemoveAll(d)
			os.Rename(away, d)
			unlock()
			rec.Class("failed-lock-while-held:attempt-did-not-fail", 1)
			return nil
		}
	}
	os.Rename(away, d)
	unlock()
	// the holder has let go: the file is free, and the same Mutex value can be locked again
	if ex, sh, perr := probe(p); perr == nil && !(ex && sh) {
		return vt.Failf("lock-left-behind", "a Mutex was locked, %d further Lock calls on it failed meanwhile (file could not be opened), then it was unlocked - but the file is still locked (exclusive probe %s, shared probe %s)", c.Fails, okStr(ex), okStr(sh))
	}
	got := make(chan error, 1)
	go func() {
		u, err := m.Lock()
		if err == nil {
			u()
		}
		got <- err
	}()
	if err, ok := vt.Patience(rec, got, 8*time.Second); ok {
		if err != nil {
			return vt.Failf("HARNESS-lock", "%v", err)
		}
	} else {
		return vt.Failf("blocked-with-no-holder", "a Mutex was locked, %d further Lock calls on it failed meanwhile, then it was unlocked - a new Lock on it has not returned after 8s", c.Fails)
	}
	return nil
}

func TestFailedLockWhileHeld(t *testing.T) {
	var n int64
	for i, k := range []int{1, 2} {
		if i%vt.NShards() != vt.Shard() {
			continue
		}
		n++
		if !vt.CheckOne(rec, "failedlock", failedLockCase{Fails: k}, checkFailedLockWhileHeld) {
			return
		}
	}
	rec.Eval(n)
	rec.NonTrivialDistinct(n)
	rec.Class("failed-lock-while-held:cases", n)
}
