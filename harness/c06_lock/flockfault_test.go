package c06

// The lock step itself can fail: flock(2) is not supported everywhere (ENOSYS / ENOTSUP / EOPNOTSUPP on some network and
// FUSE file systems) and can be interrupted (EINTR). A call whose lock step failed must not hand out a handle - it holds
// nothing, and whoever got a handle believes to hold the file -, and an interrupted lock step is simply tried again.
// The instrumented copy of the package (syscall redirected to a pass-through shim) lets the next Flock calls fail.

import (
	"fmt"
	"os"
	"path/filepath"
	"strings"
	"sync/atomic"
	"syscall"
	"testing"

	"verif/cachekit"
	lockedfilex "verif/gen/lockedfilex"
	"verif/shim/fsys"
	"verif/vt"
)

type flockCase struct {
	Entry string `json:"entry"`
	Errno string `json:"errno"` // ENOSYS | ENOTSUP | EOPNOTSUPP | EINTR
	N     int    `json:"n"`     // how many lock attempts fail (EINTR: then the lock is obtained)
}

var flockEntries = []string{"openfile-rdwr", "openfile-wronly-create", "edit", "create", "mutex", "open", "read", "write", "transform"}

func errnoOf(s string) syscall.Errno {
	switch s {
	case "ENOSYS":
		return syscall.ENOSYS
	case "ENOTSUP":
		return syscall.ENOTSUP
	case "EOPNOTSUPP":
		return syscall.EOPNOTSUPP
	case "EINTR":
		return syscall.EINTR
	}
	return 0
}

func checkFlockFault(c flockCase) *vt.Fail {
	e := errnoOf(c.Errno)
	ok := false
	for _, x := range flockEntries {
		ok = ok || x == c.Entry
	}
	if e == 0 || !ok || c.N < 1 || c.N > 5 {
		return nil
	}
	d := filepath.Join(cachekit.Scratch(), fmt.Sprintf("c06ff-%d-%d", os.Getpid(), atomic.AddInt64(&seq, 1)))
	os.MkdirAll(d, 0o777)
	defer os.RemoveAll(d)
	path := filepath.Join(d, "f")
	if err := os.WriteFile(path, []byte("content\n"), 0o666); err != nil {
		return vt.Failf("HARNESS-write", "%v", err)
	}
	fsys.FailNextFlocks(c.N, e)
	defer fsys.FailNextFlocks(0, 0)
	var release func() error
	var err error
	inside := ""
	look := func() {
		ex, sh, perr := probe(path)
		inside = fmt.Sprintf("exclusive probe %s, shared probe %s, probe error %v", okStr(ex), okStr(sh), perr)
	}
	switch c.Entry {
	case "openfile-rdwr":
		var f *lockedfilex.File
		if f, err = lockedfilex.OpenFile(path, os.O_RDWR, 0); err == nil {
			release = f.Close
		}
	case "openfile-wronly-create":
		var f *lockedfilex.File
		if f, err = lockedfilex.OpenFile(path, os.O_WRONLY|os.O_CREATE, 0o666); err == nil {
			release = f.Close
		}
	case "edit":
		var f *lockedfilex.File
		if f, err = lockedfilex.Edit(path); err == nil {
			release = f.Close
		}
	case "create":
		var f *lockedfilex.File
		if f, err = lockedfilex.Create(path); err == nil {
			release = f.Close
		}
	case "open":
		var f *lockedfilex.File
		if f, err = lockedfilex.Open(path); err == nil {
			release = f.Close
		}
	case "mutex":
		var unlock func()
		if unlock, err = lockedfilex.MutexAt(path).Lock(); err == nil {
			release = func() error { unlock(); return nil }
		}
	case "read":
		_, err = lockedfilex.Read(path)
	case "write":
		err = lockedfilex.Write(path, &hookReader{hook: look, r: strings.NewReader("written\n")}, 0o666)
	case "transform":
		err = lockedfilex.Transform(path, func(old []byte) ([]byte, error) { look(); return old, nil })
	}
	ctx := fmt.Sprintf("entry %s, the first %d lock attempts fail with %s (%d attempts were made)", c.Entry, c.N, c.Errno, fsys.Calls)
	if c.Errno == "EINTR" {
		// interrupted: tried again, and then it is an ordinary acquisition
		if err != nil {
			return vt.Failf("interrupted-lock-not-retried", "%s: the call failed: %v", ctx, err)
		}
		if release != nil {
			ex, sh, perr := probe(path)
			held := perr == nil && !ex
			if !held {
				release()
				return vt.Failf("handle-without-lock", "%s: the call returned a handle but the file is not locked (exclusive probe %s, shared probe %s)", ctx, okStr(ex), okStr(sh))
			}
			release()
		}
		return nil
	}
	// not supported: the call must fail, and nothing may be held or have been done under a lock that is not there
	if err == nil {
		if release != nil {
			ex, sh, _ := probe(path)
			release()
			return vt.Failf("handle-without-lock", "%s: the call returned a handle as if it held the lock (probes of the file while the handle was open: exclusive %s, shared %s)", ctx, okStr(ex), okStr(sh))
		}
		return vt.Failf("critical-section-without-lock", "%s: the call succeeded although its lock step failed (inside the call: %s)", ctx, inside)
	}
	if ex, sh, perr := probe(path); perr == nil && !(ex && sh) {
		return vt.Failf("lock-left-behind", "%s: the call failed (%v) but the file is still locked (exclusive probe %s, shared probe %s)", ctx, err, okStr(ex), okStr(sh))
	}
	return nil
}

func TestFlockFaults(t *testing.T) {
	var n int64
	i := 0
	for _, en := range flockEntries {
		for _, er := range []string{"ENOSYS", "ENOTSUP", "EOPNOTSUPP", "EINTR"} {
			for _, k := range []int{1, 3} {
				if er != "EINTR" && k != 1 {
					continue
				}
				i++
				if i%vt.NShards() != vt.Shard() {
					continue
				}
				n++
				if !vt.CheckOne(rec, "flockfault", flockCase{Entry: en, Errno: er, N: k}, checkFlockFault) {
					return
				}
			}
		}
	}
	rec.Eval(n)
	rec.NonTrivialDistinct(n)
	rec.Class("flock-fault:cases", n)
}
