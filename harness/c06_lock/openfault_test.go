package c06

// An entry point whose first attempt to open the file fails with "no such file or directory" - the directory was
// not there for a moment, say - while somebody else holds the write lock: whatever the attempt does next (fail, try again,
// wait for the lock), it does not hold the lock, so the file the holder is working on stays as it is.

import (
	"fmt"
	"os"
	"path/filepath"
	"strings"
	"sync/atomic"
	"syscall"
	"testing"
	"time"

	"github.com/rogpeppe/go-internal/lockedfile"

	"verif/cachekit"
	lockedfilex "verif/gen/lockedfilex"
	"verif/shim/fos"
	"verif/vt"
)

type openFaultCase struct {
	Entry string `json:"entry"` // create | write | openfile-trunc | edit | mutex
	Errno string `json:"errno"` // ENOENT | EINTR | EMFILE
}

var openFaultEntries = []string{"create", "write", "openfile-trunc", "edit", "mutex"}

func checkOpenFault(c openFaultCase) *vt.Fail {
	var e syscall.Errno
	switch c.Errno {
	case "ENOENT":
		e = syscall.ENOENT
	case "EINTR":
		e = syscall.EINTR
	case "EMFILE":
		e = syscall.EMFILE
	default:
		return nil
	}
	ok := false
	for _, x := range openFaultEntries {
		ok = ok || x == c.Entry
	}
	if !ok {
		return nil
	}
	d := filepath.Join(cachekit.Scratch(), fmt.Sprintf("c06of-%d-%d", os.Getpid(), atomic.AddInt64(&seq, 1)))
	os.MkdirAll(d, 0o777)
	defer os.RemoveAll(d)
	path := filepath.Join(d, "f")
	const held = "what the holder is working on\n"
	if err := os.WriteFile(path, []byte(held), 0o666); err != nil {
		return vt.Failf("HARNESS-write", "%v", err)
	}
	holder, err := lockedfile.Edit(path) // the unmodified package: holds the write lock
	if err != nil {
		return vt.Failf("HARNESS-edit", "%v", err)
	}
	fos.SetFailErr(e)
	fos.Begin(fos.Plan{K: 0, Kind: fos.FailBefore})
	done := make(chan error, 1)
	go func() {
		var release func() error
		var err error
		switch c.Entry {
		case "create":
			var f *lockedfilex.File
			if f, err = lockedfilex.Create(path); err == nil {
				release = f.Close
			}
		case "openfile-trunc":
			var f *lockedfilex.File
			if f, err = lockedfilex.OpenFile(path, os.O_WRONLY|os.O_CREATE|os.O_TRUNC, 0o666); err == nil {
				release = f.Close
			}
		case "edit":
			var f *lockedfilex.File
			if f, err = lockedfilex.Edit(path); err == nil {
				release = f.Close
			}
		case "mutex":
			var unlock func()
			if unlock, err = lockedfilex.MutexAt(path).Lock(); err == nil {
				release = func() error { unlock(); return nil }
			}
		case "write":
			err = lockedfilex.Write(path, strings.NewReader("written by somebody else\n"), 0o666)
		}
		if release != nil {
			release()
		}
		done <- err
	}()
	// the attempt fails at once, or it is waiting for the lock now: either way, give it a moment
	returned := false
	var attemptErr error
	select {
	case attemptErr = <-done:
		returned = true
	case <-time.After(300 * time.Millisecond):
	}
	ops, _, _ := fos.End()
	fos.SetFailErr(nil)
	b, rerr := os.ReadFile(path)
	cerr := holder.Close()
	if !returned {
		var ok bool
		if attemptErr, ok = vt.Patience(rec, done, 8*time.Second); !ok {
			return vt.Failf("blocked-with-no-holder", "entry %s, whose first open failed with %s, has not returned 8s after the holder released the lock", c.Entry, c.Errno)
		}
	}
	if cerr != nil {
		return vt.Failf("HARNESS-close", "%v", cerr)
	}
	var tr []string
	for _, o := range ops {
		tr = append(tr, o.Desc)
	}
	if rerr != nil || string(b) != held {
		return vt.Failf("changed-while-held-by-another", "while another holder had the write lock, entry %s - whose first open failed with %s - left the file holding %q instead of %q (read error %v; the attempt returned %v; its file operations: %v)", c.Entry, c.Errno, b, held, rerr, attemptErr, tr)
	}
	return nil
}

func TestOpenFaults(t *testing.T) {
	var n int64
	i := 0
	for _, en := range openFaultEntries {
		for _, er := range []string{"ENOENT", "EINTR", "EMFILE"} {
			i++
			if i%vt.NShards() != vt.Shard() {
				continue
			}
			n++
			if !vt.CheckOne(rec, "openfault", openFaultCase{Entry: en, Errno: er}, checkOpenFault) {
				return
			}
		}
	}
	rec.Eval(n)
	rec.NonTrivialDistinct(n)
	rec.Class("open-fault-while-held:cases", n)
}
