package c12

import (
	"bytes"
	"crypto/sha256"
	"errors"
	"fmt"
	"io"
	"os"
	"os/exec"
	"strings"
	"sync"
	"syscall"
	"testing"
	"time"

	"github.com/rogpeppe/go-internal/cache"
	"pgregory.net/rapid"

	"verif/cachekit"
	cachex "verif/gen/cachex"
	"verif/shim/fos"
	"verif/vt"
)

var rec = vt.New("C12")

func TestMain(m *testing.M) {
	if os.Getenv("VERIF_ROLE") == "c12-writer" {
		writerMain()
		return
	}
	vt.Main(m, rec)
}

// ---- case ----

type srcFault struct {
	Mode string `json:"mode"` // "", err, eof, extra, change, seekerr
	Pass int    `json:"pass"` // 1 or 2
	At   int    `json:"at"`   // byte offset at which the misbehaviour starts
}

type faultCase struct {
	Prev   int  `json:"prev"`   // content previously stored under the target id (-1: none)
	Data   int  `json:"data"`   // content being Put
	Shared bool `json:"shared"` // another id already holds Data's content
	// Dangling: another id's index entry names Data's output, but the output file is gone - the state Trim leaves
	// behind when the output file is stale while the index entry was refreshed by plain Get calls (not damage).
	Dangling bool `json:"dangling,omitempty"`
	// Leftover: an earlier Put of Data's content under another id failed in its second pass, so the cache itself left
	// the output file truncated to zero bytes (not damage: the state a failing source produces).
	Leftover  bool     `json:"leftover,omitempty"`
	Damage    string   `json:"damage"`    // pre-damage of the target output file: "", shorter, longer, flip, empty
	Unrelated int      `json:"unrelated"` // unrelated entries present (1-3)
	Src       srcFault `json:"src"`
	// PeerAt > 0: another writer (a second handle on the directory, unmodified cache package, healthy source) is storing the
	// same content under its own id at the same time; the faulty Put runs - as a whole, up to its halt - when that writer
	// has copied PeerAt-1 bytes of its second pass, and the other writer then carries on. Only halts are injected here
	// ("the process stops"): a Put that *fails* truncates the output it shares with the running writer, see DESIGN.
	PeerAt int `json:"peer_at,omitempty"`
	// Observer: the reverse nesting, with a source that hands out other data from offset Src.At of its second pass on: when
	// the faulty Put's second pass gets there, a second handle on the directory (unmodified cache package, healthy source)
	// stores the same content under its own id - completing the output file the faulty Put is part-way through - and
	// looks it up once; the faulty Put then carries on over the completed file with its other bytes until it notices, fails
	// or halts. That same handle (a process that lives on) does the lookups afterwards.
	Observer bool `json:"observer,omitempty"`
	// ViaBytes: the data is stored through PutBytes instead of Put with a reader (honest source only)
	ViaBytes bool `json:"via_bytes,omitempty"`
	// NoVerify: the data is stored through PutNoVerify (the entry point for outputs that need not be reproducible): what
	// the statement says about a failing or halted Put holds for it just the same
	NoVerify bool `json:"no_verify,omitempty"`
	K        int  `json:"k"`    // operation index of the file-operation fault (-1: none)
	Kind     int  `json:"kind"` // fos.Kind
	Cut      int  `json:"cut"`
}

const (
	targetID   = 0
	sharedID   = 1
	unrelBase  = 2 // ids 2,3,4
	danglingID = 5
	peerID     = 6
)

var unrelContent = []int{1, 7, 3}

var (
	dirOnce sync.Once
	dir     string
	dirErr  error
	hot     = map[byte]bool{}
)

func cacheDir() (string, error) {
	dirOnce.Do(func() {
		dir, dirErr = cachekit.NewDir(cachekit.Scratch(), fmt.Sprintf("c12-%d", os.Getpid()))
		for i := 0; i < 6; i++ {
			hot[cachekit.ID(i)[0]] = true
		}
		for c := 0; c < cachekit.NContents; c++ {
			hot[cachekit.Sum(cachekit.Content(c))[0]] = true
		}
	})
	return dir, dirErr
}

// flaky is a ReadSeeker that misbehaves from a given pass and offset on.
type flaky struct {
	data   []byte
	f      srcFault
	pass   int
	off    int
	zeroed bool   // mode "zero": the one (0, nil) read has happened
	inside func() // run once when the misbehaviour offset of the misbehaving pass is reached
}

func (s *flaky) Seek(off int64, whence int) (int64, error) {
	s.pass++
	s.off = 0
	if s.f.Mode == "seekerr" && s.pass >= s.f.Pass {
		return 0, errors.New("source: seek failed")
	}
	return 0, nil
}

func (s *flaky) Read(p []byte) (int, error) {
	if len(p) == 0 {
		return 0, nil
	}
	active := s.f.Mode != "" && s.pass >= s.f.Pass
	if active && s.off >= s.f.At && s.inside != nil {
		fn := s.inside
		s.inside = nil
		fn()
	}
	if active && s.off >= s.f.At {
		switch s.f.Mode {
		case "eof":
			return 0, io.EOF
		case "err":
			return 0, errors.New("source: read failed")
		case "zero":
			// a reader that has nothing ready for the moment: (0, nil) once, which io.Reader discourages and allows;
			// the data it hands over is complete and unchanged (an honest source)
			if !s.zeroed && s.pass == s.f.Pass && s.off == s.f.At {
				s.zeroed = true
				return 0, nil
			}
		}
	}
	if s.off >= len(s.data) {
		if active && s.f.Mode == "extra" && s.off < len(s.data)+3 {
			s.off++
			p[0] = 'X'
			return 1, nil
		}
		return 0, io.EOF
	}
	lim := len(p)
	if lim > 1000 {
		lim = 1000 // short reads on purpose
	}
	// stop exactly at the misbehaviour offset so that it starts on a read boundary
	if active && s.off < s.f.At && s.off+lim > s.f.At {
		lim = s.f.At - s.off
	}
	n := copy(p[:lim], s.data[s.off:])
	if active && s.f.Mode == "change" {
		for i := 0; i < n; i++ {
			if s.off+i >= s.f.At {
				p[i] ^= 0x55
			}
		}
	}
	s.off += n
	return n, nil
}

func notFound(err error) bool {
	return err != nil && strings.HasPrefix(err.Error(), "cache entry not found")
}

func setup(c faultCase) (string, *vt.Fail) {
	d, err := cacheDir()
	if err != nil {
		return "", vt.Failf("HARNESS-dir", "%v", err)
	}
	cachekit.Clean(d, hot)
	rc, err := cache.Open(d)
	if err != nil {
		return "", vt.Failf("HARNESS-open", "%v", err)
	}
	for i := 0; i < c.Unrelated && i < 3; i++ {
		if err := rc.PutBytes(cachekit.ID(unrelBase+i), cachekit.Content(unrelContent[i])); err != nil {
			return "", vt.Failf("HARNESS-setup", "%v", err)
		}
	}
	if c.Prev >= 0 {
		rc.PutBytes(cachekit.ID(targetID), cachekit.Content(c.Prev))
	}
	if c.Shared {
		rc.PutBytes(cachekit.ID(sharedID), cachekit.Content(c.Data))
	}
	if c.Dangling && !c.Shared && c.Damage == "" && c.Prev != c.Data {
		rc.PutBytes(cachekit.ID(danglingID), cachekit.Content(c.Data))
		os.Remove(cachekit.DataPath(d, cachekit.Sum(cachekit.Content(c.Data))))
	}
	if c.Leftover && !c.Shared && !c.Dangling && c.Damage == "" && c.Prev != c.Data && len(cachekit.Content(c.Data)) > 1 {
		data := cachekit.Content(c.Data)
		rc.Put(cachekit.ID(danglingID), &flaky{data: data, f: srcFault{Mode: "err", Pass: 2, At: len(data) / 2}})
	}
	if c.Damage != "" {
		p := cachekit.DataPath(d, cachekit.Sum(cachekit.Content(c.Data)))
		b, err := os.ReadFile(p)
		if err != nil { // not there yet: plant a damaged one
			b = append([]byte(nil), cachekit.Content(c.Data)...)
		}
		switch c.Damage {
		case "shorter":
			b = b[:len(b)/2]
		case "longer":
			b = append(b, "xx"...)
		case "flip":
			if len(b) > 0 {
				b[len(b)/3] ^= 1
			} else {
				b = []byte("x")
			}
		case "empty":
			b = nil
		}
		os.WriteFile(p, b, 0o666)
	}
	return d, nil
}

func validCase(c faultCase) bool {
	if c.Data < 0 || c.Data >= cachekit.NContents || c.Prev >= cachekit.NContents || c.Unrelated < 0 || c.Unrelated > 3 {
		return false
	}
	if c.Data == 1 || c.Data == 7 || c.Data == 3 || c.Prev == 1 || c.Prev == 7 || c.Prev == 3 {
		return false // reserved for the unrelated entries
	}
	if c.PeerAt > 0 {
		k := fos.Kind(c.Kind)
		halts := c.K < 0 || k == fos.CrashBefore || k == fos.CrashAfter || k == fos.CrashAfterShortWrite
		if !halts || c.Src.Mode != "" || c.Damage != "" || c.Shared || c.Dangling || c.Leftover || c.Prev == c.Data || c.PeerAt > len(cachekit.Content(c.Data)) || len(cachekit.Content(c.Data)) < 2 {
			return false
		}
	}
	if c.Observer {
		n := len(cachekit.Content(c.Data))
		if c.PeerAt > 0 || c.Src.Mode != "change" || c.Src.Pass != 2 || c.Src.At < 0 || c.Src.At >= n || c.Damage != "" || c.Shared || c.Dangling || c.Leftover || c.Prev == c.Data || c.ViaBytes || n < 2 {
			return false
		}
	}
	return c.Kind >= 0 && c.Kind <= int(fos.FailOpensFrom)
}

// peerSrc is the healthy source of the concurrent writer: in its second pass it hands out the bytes before offset at,
// and when asked for the byte at that offset it first lets fn run (the faulty Put), then carries on.
type peerSrc struct {
	data  []byte
	off   int
	pass  int
	at    int
	fired bool
	fn    func()
}

func (s *peerSrc) Seek(off int64, whence int) (int64, error) {
	if whence != io.SeekStart {
		return 0, errors.New("peerSrc: only SeekStart")
	}
	s.pass++
	s.off = int(off)
	return off, nil
}

func (s *peerSrc) Read(p []byte) (int, error) {
	end := len(s.data)
	if s.pass >= 2 && !s.fired {
		if s.off < s.at {
			end = s.at
		} else if s.off == s.at {
			s.fired = true
			s.fn()
		}
	}
	if s.off >= len(s.data) {
		return 0, io.EOF
	}
	n := copy(p, s.data[s.off:end])
	s.off += n
	return n, nil
}

// runPutWithPeer runs the other writer's Put with the faulty Put nested at the chosen point of its copy.
func runPutWithPeer(d string, c faultCase) (ops []fos.Op, putErr error, crashed bool, peerErr error, fired bool, fail *vt.Fail) {
	pc, err := cache.Open(d)
	if err != nil {
		return nil, nil, false, nil, false, vt.Failf("HARNESS-open", "%v", err)
	}
	src := &peerSrc{data: cachekit.Content(c.Data), at: c.PeerAt - 1}
	src.fn = func() { ops, putErr, crashed, fail = runPut(d, c) }
	_, _, peerErr = pc.Put(cache.ActionID(cachekit.ID(peerID)), src)
	return ops, putErr, crashed, peerErr, src.fired, fail
}

// runPut performs the faulty Put through the instrumented cache; it returns the operation trace.
func runPut(d string, c faultCase) (ops []fos.Op, putErr error, crashed bool, fail *vt.Fail) {
	return runPutInside(d, c, nil)
}

func runPutInside(d string, c faultCase, inside func()) (ops []fos.Op, putErr error, crashed bool, fail *vt.Fail) {
	xc, err := cachex.Open(d)
	if err != nil {
		return nil, nil, false, vt.Failf("HARNESS-openx", "%v", err)
	}
	data := cachekit.Content(c.Data)
	src := &flaky{data: data, f: c.Src, inside: inside}
	fos.Begin(fos.Plan{K: c.K, Kind: fos.Kind(c.Kind), Cut: c.Cut})
	func() {
		defer func() {
			if r := recover(); r != nil {
				if !fos.IsCrash(r) {
					fail = vt.Failf("put-panic", "Put panicked: %v", r)
				}
			}
		}()
		if c.ViaBytes && c.Src.Mode == "" {
			putErr = xc.PutBytes(cachex.ActionID(cachekit.ID(targetID)), data)
		} else if c.NoVerify {
			_, _, putErr = xc.PutNoVerify(cachex.ActionID(cachekit.ID(targetID)), src)
		} else {
			_, _, putErr = xc.Put(cachex.ActionID(cachekit.ID(targetID)), src)
		}
	}()
	ops, _, crashed = fos.End()
	return
}

func checkFault(c faultCase) *vt.Fail {
	if !validCase(c) {
		return nil
	}
	d, f := setup(c)
	if f != nil {
		return f
	}
	if c.PeerAt > 0 {
		ops, putErr, crashed, peerErr, fired, f := runPutWithPeer(d, c)
		if f != nil {
			return f
		}
		if !fired {
			return vt.Failf("HARNESS-peer", "the other writer never reached offset %d of its second pass (Put: %v)", c.PeerAt-1, peerErr)
		}
		if f := verifyPeer(d, c, ops, putErr, crashed, peerErr); f != nil {
			return f
		}
		return verify(d, c, ops, putErr, crashed)
	}
	if c.Observer {
		return checkObserver(d, c)
	}
	ops, putErr, crashed, f := runPut(d, c)
	if f != nil {
		return f
	}
	return verify(d, c, ops, putErr, crashed)
}

// checkObserver: see faultCase.Observer.
func checkObserver(d string, c faultCase) *vt.Fail {
	pc, err := cache.Open(d)
	if err != nil {
		return vt.Failf("HARNESS-open", "%v", err)
	}
	id := cache.ActionID(cachekit.ID(peerID))
	data := cachekit.Content(c.Data)
	var inner *vt.Fail
	fired := false
	ops, putErr, crashed, f := runPutInside(d, c, func() {
		fired = true
		if err := pc.PutBytes(id, data); err != nil {
			inner = vt.Failf("HARNESS-observer", "the second handle's Put failed: %v", err)
			return
		}
		if b, _, err := pc.GetBytes(id); err != nil || !bytes.Equal(b, data) {
			inner = vt.Failf("put-returned-nil-but-not-stored", "the second handle's Put returned nil while the faulty Put was at offset %d of its second pass, yet its GetBytes(id%d) gives %d bytes, err %v", c.Src.At, peerID, len(b), err)
		}
	})
	if f != nil {
		return f
	}
	if inner != nil {
		return inner
	}
	if fired {
		ctx := fmt.Sprintf("a second handle stored the same content as id%d and looked it up when the faulty Put was at offset %d of its second pass; that handle is asked again afterwards. %s", peerID, c.Src.At, describe(c, ops, putErr, crashed))
		for round := 0; round < 2; round++ {
			b, e, err := pc.GetBytes(id)
			if err == nil {
				if sha256.Sum256(b) != e.OutputID {
					return vt.Failf("getbytes-unverified", "GetBytes(id%d) returns %d bytes whose SHA-256 is not the reported OutputID. %s", peerID, len(b), ctx)
				}
			} else if !notFound(err) {
				return vt.Failf("getbytes-other-error", "GetBytes(id%d): %v. %s", peerID, err, ctx)
			}
		}
		// (and a fresh handle; checksum-verified lookups only: the file GetFile names is checked by size alone, and a
		// completed output that a writer with a changing source then scribbles over and halts on keeps its size in the
		// unchanged code too - recorded in DESIGN as an observation, outside the single Put the statement is about)
		rc, err := cache.Open(d)
		if err != nil {
			return vt.Failf("HARNESS-open", "%v", err)
		}
		if b, e, err := rc.GetBytes(id); err == nil && sha256.Sum256(b) != e.OutputID {
			return vt.Failf("getbytes-unverified", "GetBytes(id%d) through a fresh handle returns %d bytes whose SHA-256 is not the reported OutputID. %s", peerID, len(b), ctx)
		} else if err != nil && !notFound(err) {
			return vt.Failf("getbytes-other-error", "GetBytes(id%d): %v. %s", peerID, err, ctx)
		}
	}
	return verify(d, c, ops, putErr, crashed)
}

// verifyPeer: what the other writer stored (same content, its own id) while the faulty Put halted next to it.
func verifyPeer(d string, c faultCase, ops []fos.Op, putErr error, crashed bool, peerErr error) *vt.Fail {
	ctx := fmt.Sprintf("other writer (id%d, same content) was at offset %d of its copy, its Put returned %v. %s", peerID, c.PeerAt-1, peerErr, describe(c, ops, putErr, crashed))
	rc, err := cache.Open(d)
	if err != nil {
		return vt.Failf("HARNESS-open", "%v", err)
	}
	id := cache.ActionID(cachekit.ID(peerID))
	b, e, err := rc.GetBytes(id)
	if err == nil {
		if sha256.Sum256(b) != e.OutputID {
			return vt.Failf("getbytes-unverified", "GetBytes(id%d) returns %d bytes whose SHA-256 is not the reported OutputID. %s", peerID, len(b), ctx)
		}
	} else if !notFound(err) {
		return vt.Failf("getbytes-other-error", "GetBytes(id%d): %v. %s", peerID, err, ctx)
	}
	file, e, err := rc.GetFile(id)
	if err == nil {
		fb, rerr := os.ReadFile(file)
		if rerr != nil || int64(len(fb)) != e.Size || sha256.Sum256(fb) != e.OutputID {
			return vt.Failf("getfile-names-bad-file", "GetFile(id%d) names a file of %d bytes (reported size %d) whose content does not have the reported OutputID (read err %v). %s", peerID, len(fb), e.Size, rerr, ctx)
		}
	} else if !notFound(err) {
		return vt.Failf("getfile-other-error", "GetFile(id%d): %v. %s", peerID, err, ctx)
	}
	return nil
}

func describe(c faultCase, ops []fos.Op, putErr error, crashed bool) string {
	op := "none"
	if c.K >= 0 && c.K < len(ops) {
		op = ops[c.K].Desc
	}
	var tr []string
	for _, o := range ops {
		tr = append(tr, o.Desc)
	}
	peer := ""
	if c.PeerAt > 0 {
		peer = fmt.Sprintf(" other-writer-at=%d", c.PeerAt-1)
	}
	if c.ViaBytes {
		peer += " via=PutBytes"
	}
	if c.NoVerify {
		peer += " via=PutNoVerify"
	}
	if c.Observer {
		peer += " second-handle-stores-and-looks-up-inside"
	}
	return fmt.Sprintf("scenario{prev=%d data=%d(%d bytes) shared=%v dangling=%v leftover=%v damage=%q"+peer+"} source=%+v fault{op %d=%s kind=%s cut=%d} -> Put err=%v crashed=%v; trace=%v",
		c.Prev, c.Data, len(cachekit.Content(c.Data)), c.Shared, c.Dangling, c.Leftover, c.Damage, c.Src, c.K, op, fos.Kind(c.Kind), c.Cut, putErr, crashed, tr)
}

func verify(d string, c faultCase, ops []fos.Op, putErr error, crashed bool) *vt.Fail {
	ctx := describe(c, ops, putErr, crashed)
	rc, err := cache.Open(d)
	if err != nil {
		return vt.Failf("HARNESS-open", "%v", err)
	}
	data := cachekit.Content(c.Data)
	ids := []int{targetID}
	if c.Shared {
		ids = append(ids, sharedID)
	}
	if c.Dangling && !c.Shared && c.Damage == "" && c.Prev != c.Data {
		ids = append(ids, danglingID)
	}
	for _, i := range ids {
		id := cache.ActionID(cachekit.ID(i))
		b, e, err := rc.GetBytes(id)
		if err == nil {
			if sha256.Sum256(b) != e.OutputID {
				return vt.Failf("getbytes-unverified", "GetBytes(id%d) returns %d bytes whose SHA-256 is not the reported OutputID. %s", i, len(b), ctx)
			}
			if c.Damage == "" && !crashed && int64(len(b)) != e.Size {
				// A Put whose index write fails removes the entry (the property's last mechanism), so from an undamaged
				// start no entry is left that pairs this Put's output with the previous Put's size. (After a *halt* in the
				// middle of the index write such a pair can remain in the unchanged code - GetBytes then still returns
				// hash-verified bytes, which is all the statement promises - so halted runs are not held to this.)
				return vt.Failf("getbytes-size-mismatch", "GetBytes(id%d) returns %d bytes but reports an entry of size %d. %s", i, len(b), e.Size, ctx)
			}
		} else if !notFound(err) {
			return vt.Failf("getbytes-other-error", "GetBytes(id%d): %v. %s", i, err, ctx)
		}
		if c.Damage == "" {
			file, e, err := rc.GetFile(id)
			if err == nil {
				fb, rerr := os.ReadFile(file)
				if rerr != nil || int64(len(fb)) != e.Size || sha256.Sum256(fb) != e.OutputID {
					return vt.Failf("getfile-names-bad-file", "GetFile(id%d) names a file of %d bytes (reported size %d) whose content does not have the reported OutputID (read err %v). %s", i, len(fb), e.Size, rerr, ctx)
				}
			} else if !notFound(err) {
				return vt.Failf("getfile-other-error", "GetFile(id%d): %v. %s", i, err, ctx)
			}
			singleFault := c.K < 0 || c.Src.Mode == ""
			if i == sharedID && singleFault {
				// (asserted for single faults only: with a file-operation fault AND a source fault together the
				// real code can truncate the shared output - Stat fails, so the intact file is rewritten, then the
				// source fails; the statement's alternatives are read as one fault per Put)
				// the shared entry was complete before and Put of identical content must not disturb it
				if b2, _, err := rc.GetBytes(id); err != nil || !bytes.Equal(b2, data) {
					return vt.Failf("entry-with-same-content-lost", "id%d held the same content before the failing Put and is now unreadable: %v. %s", i, err, ctx)
				}
			}
		}
	}
	if putErr == nil && !crashed && c.Damage == "" && (c.Src.Mode == "" || c.Src.Mode == "zero") {
		// C05's first sentence under faults: a Put that returned without error - whatever failed on the way and was
		// absorbed - has stored the data. (Undamaged start, honest source: with a pre-damaged output an absorbed Stat
		// failure can leave the damage in place, and a source that misbehaves has not handed over "the data".)
		if b, _, err := rc.GetBytes(cache.ActionID(cachekit.ID(targetID))); err != nil || !bytes.Equal(b, data) {
			return vt.Failf("put-returned-nil-but-not-stored", "Put returned nil, yet GetBytes(id%d) gives %d bytes, err %v instead of the %d bytes stored. %s", targetID, len(b), err, len(data), ctx)
		}
	}
	for i := 0; i < c.Unrelated && i < 3; i++ {
		id := cache.ActionID(cachekit.ID(unrelBase + i))
		want := cachekit.Content(unrelContent[i])
		b, _, err := rc.GetBytes(id)
		if err != nil || !bytes.Equal(b, want) {
			return vt.Failf("unrelated-entry-unreadable", "unrelated entry id%d no longer readable with GetBytes: %v. %s", unrelBase+i, err, ctx)
		}
		file, _, err := rc.GetFile(id)
		if err != nil {
			return vt.Failf("unrelated-entry-unreadable", "unrelated entry id%d no longer readable with GetFile: %v. %s", unrelBase+i, err, ctx)
		}
		if fb, _ := os.ReadFile(file); !bytes.Equal(fb, want) {
			return vt.Failf("unrelated-entry-unreadable", "unrelated entry id%d: file content changed. %s", unrelBase+i, ctx)
		}
	}
	// not wedged: a fault-free Put of the same content succeeds and makes the id readable
	if err := rc.PutBytes(cache.ActionID(cachekit.ID(targetID)), data); err != nil {
		return vt.Failf("store-wedged", "a later fault-free Put of the same content fails: %v. %s", err, ctx)
	}
	if b, _, err := rc.GetBytes(cache.ActionID(cachekit.ID(targetID))); err != nil || !bytes.Equal(b, data) {
		return vt.Failf("store-wedged", "after a later fault-free Put the id is still unreadable: %v. %s", err, ctx)
	}
	if file, _, err := rc.GetFile(cache.ActionID(cachekit.ID(targetID))); err != nil {
		return vt.Failf("store-wedged", "after a later fault-free Put GetFile fails: %v. %s", err, ctx)
	} else if fb, _ := os.ReadFile(file); !bytes.Equal(fb, data) {
		return vt.Failf("store-wedged", "after a later fault-free Put GetFile names a file with other content. %s", ctx)
	}
	return nil
}

// ---- enumeration ----

var scenarios = []faultCase{
	{Prev: -1, Data: 5}, {Prev: -1, Data: 0}, {Prev: -1, Data: 2}, {Prev: -1, Data: 4}, // new entries: 4097, 0, 139, 4096 bytes
	{Prev: 2, Data: 5}, {Prev: 5, Data: 2}, {Prev: 4, Data: 5}, // overwrite with different size
	{Prev: 5, Data: 5},                                                  // re-put identical
	{Prev: -1, Data: 5, Shared: true}, {Prev: 2, Data: 5, Shared: true}, // content shared with another id
	{Prev: 5, Data: 5, Damage: "shorter"}, {Prev: 5, Data: 5, Damage: "longer"}, {Prev: 5, Data: 5, Damage: "flip"}, {Prev: 5, Data: 5, Damage: "empty"},
	{Prev: -1, Data: 5, Damage: "flip"}, {Prev: -1, Data: 5, Damage: "longer", Shared: true},
	{Prev: -1, Data: 0, Damage: "flip"},                                                                         // zero-size output damaged to non-empty
	{Prev: 0, Data: 5, Leftover: true}, {Prev: 2, Data: 5, Leftover: true}, {Prev: -1, Data: 2, Leftover: true}, // an earlier failed Put left the output truncated
	{Prev: -1, Data: 5, Dangling: true}, {Prev: 2, Data: 5, Dangling: true}, // another id's index entry names the output, the output file was trimmed
	// every file-operation fault under a misbehaving source (second pass differs, fails or ends early)
	{Prev: -1, Data: 5, Dangling: true, Src: srcFault{Mode: "change", Pass: 2, At: 0}}, {Prev: -1, Data: 5, Dangling: true, Src: srcFault{Mode: "change", Pass: 2, At: 4096}},
	{Prev: -1, Data: 2, Dangling: true, Src: srcFault{Mode: "change", Pass: 2, At: 70}}, {Prev: -1, Data: 5, Src: srcFault{Mode: "change", Pass: 2, At: 2048}},
	{Prev: -1, Data: 5, Dangling: true, Src: srcFault{Mode: "err", Pass: 2, At: 2048}}, {Prev: 2, Data: 5, Src: srcFault{Mode: "eof", Pass: 2, At: 4000}},
	{Prev: -1, Data: 5, Shared: true, Src: srcFault{Mode: "extra", Pass: 2}},
	// the same through the PutBytes entry point
	{Prev: -1, Data: 5, ViaBytes: true}, {Prev: 2, Data: 5, ViaBytes: true}, {Prev: -1, Data: 5, Shared: true, ViaBytes: true}, {Prev: 5, Data: 5, ViaBytes: true}, {Prev: -1, Data: 0, Shared: true, ViaBytes: true},
	// the same through the PutNoVerify entry point, honest and misbehaving sources
	{Prev: -1, Data: 5, NoVerify: true}, {Prev: -1, Data: 5, Shared: true, NoVerify: true}, {Prev: 5, Data: 5, NoVerify: true},
	{Prev: -1, Data: 5, Shared: true, NoVerify: true, Src: srcFault{Mode: "err", Pass: 2, At: 2048}}, {Prev: 2, Data: 5, Shared: true, NoVerify: true, Src: srcFault{Mode: "change", Pass: 2, At: 4096}},
	// another writer is part-way through storing the same content (halts only)
	{Prev: -1, Data: 5, PeerAt: 1}, {Prev: -1, Data: 5, PeerAt: 2}, {Prev: -1, Data: 5, PeerAt: 2049}, {Prev: -1, Data: 5, PeerAt: 4097}, {Prev: 2, Data: 5, PeerAt: 4096},
	{Prev: -1, Data: 2, PeerAt: 70}, {Prev: 5, Data: 2, PeerAt: 139}, {Prev: -1, Data: 4, PeerAt: 4096},
	// a second handle completes and looks up the same content in the middle of a Put whose source changed
	{Prev: -1, Data: 5, Observer: true, Src: srcFault{Mode: "change", Pass: 2, At: 0}}, {Prev: -1, Data: 5, Observer: true, Src: srcFault{Mode: "change", Pass: 2, At: 2048}},
	{Prev: 2, Data: 5, Observer: true, Src: srcFault{Mode: "change", Pass: 2, At: 4096}}, {Prev: -1, Data: 2, Observer: true, Src: srcFault{Mode: "change", Pass: 2, At: 70}},
}

var kinds = []fos.Kind{fos.FailBefore, fos.ShortWriteThenFail, fos.CrashBefore, fos.CrashAfter, fos.CrashAfterShortWrite, fos.FailOpensFrom}

var srcModes = []srcFault{{}, {Mode: "err", Pass: 1}, {Mode: "err", Pass: 2}, {Mode: "eof", Pass: 1}, {Mode: "eof", Pass: 2}, {Mode: "extra", Pass: 1}, {Mode: "extra", Pass: 2},
	{Mode: "change", Pass: 2}, {Mode: "seekerr", Pass: 1}, {Mode: "seekerr", Pass: 2}, {Mode: "zero", Pass: 1}, {Mode: "zero", Pass: 2}}

type cell struct{ total, nontrivial int64 }

func cutsFor(kind fos.Kind, n int) []int {
	if kind != fos.ShortWriteThenFail && kind != fos.CrashAfterShortWrite {
		return []int{0}
	}
	cuts := []int{0, 1, n / 2, n - 1}
	if n >= 160 && n <= 200 {
		// an index entry: also cut at the boundaries of its fields (action id | output id | size | time)
		cuts = append(cuts, 68, 132, 133, 153)
	}
	return cuts
}

func firstWrite(ops []fos.Op) int {
	for _, o := range ops {
		if o.Write && o.N > 0 {
			return o.Index
		}
	}
	return 1 << 30
}

// enumerate runs every (operation index, kind, cut) of the given base case.
func enumerate(t *testing.T, base faultCase, counts map[string]*cell) (runs, nt int64, ok bool) {
	base.K = -1
	base.Kind = 0
	d, f := setup(base)
	if f != nil {
		rec.Report("fault", f, base)
		return 0, 0, false
	}
	var ops []fos.Op
	if base.PeerAt > 0 {
		ops, _, _, _, _, f = runPutWithPeer(d, base)
	} else {
		ops, _, _, f = runPut(d, base)
	}
	if f != nil {
		rec.Report("fault", f, base)
		return 0, 0, false
	}
	fw := firstWrite(ops)
	for k := 0; k < len(ops); k++ {
		for _, kind := range kinds {
			seen := map[int]bool{}
			for _, cut := range cutsFor(kind, ops[k].N) {
				if cut < 0 || seen[cut] {
					continue
				}
				seen[cut] = true
				if (kind == fos.ShortWriteThenFail || kind == fos.CrashAfterShortWrite) && !(ops[k].Write && ops[k].N > 0) {
					continue // identical to fail-before / crash-before on a non-write
				}
				c := base
				c.K, c.Kind, c.Cut = k, int(kind), cut
				if !validCase(c) {
					continue // (a scenario with another writer takes halts only)
				}
				runs++
				key := kind.String()
				if counts[key] == nil {
					counts[key] = &cell{}
				}
				counts[key].total++
				if k > fw || (k == fw && kind != fos.FailBefore && kind != fos.CrashBefore && !(cut == 0 && kind != fos.CrashAfter)) {
					nt++
					counts[key].nontrivial++
				}
				if !vt.CheckOne(rec, "fault", c, checkFault) {
					return runs, nt, false
				}
			}
		}
	}
	return runs, nt, true
}

func TestEnumerateFileFaults(t *testing.T) {
	counts := map[string]*cell{}
	var runs, nt int64
	for i, sc := range scenarios {
		if i%vt.NShards() != vt.Shard() {
			continue
		}
		for _, un := range []int{1, 3} {
			sc.Unrelated = un
			r, n, ok := enumerate(t, sc, counts)
			runs += r
			nt += n
			if !ok {
				t.Errorf("violation in scenario %d", i)
				return
			}
		}
	}
	rec.Eval(runs)
	rec.NonTrivialDistinct(nt)
	for k, c := range counts {
		rec.Class("file-fault:"+k, c.total)
	}
	rec.Exhaustive(fmt.Sprintf("every operation index of the fault-free trace x {fail-before, short-write-then-fail, crash-before, crash-after, crash-after-short-write} x cut in {0,1,n/2,n-1} for %d scenarios x {1,3} unrelated entries (this shard: %d runs)", len(scenarios), runs))
	rec.Sample("file-fault", 2, faultCase{Prev: 2, Data: 5, Unrelated: 1, K: 6, Kind: int(fos.CrashAfterShortWrite), Cut: 2048})
}

// TestSourceProduct: source behaviour x offset x file-operation fault.
func TestSourceProduct(t *testing.T) {
	counts := map[string]*cell{}
	var runs, nt int64
	bases := []faultCase{{Prev: 4, Data: 5, Unrelated: 1}, {Prev: -1, Data: 5, Unrelated: 1}, {Prev: 5, Data: 5, Damage: "flip", Unrelated: 1}, {Prev: -1, Data: 5, Shared: true, NoVerify: true, Unrelated: 1}, {Prev: 2, Data: 6, Unrelated: 1}}
	if !vt.Thorough() {
		bases = bases[:4]
	}
	idx := 0
	for _, b := range bases {
		size := len(cachekit.Content(b.Data))
		offs := []int{0, 1, size / 2, size - 1, size}
		if vt.Thorough() {
			offs = append(offs, 2, 999, 1000, 1001, size-2)
		}
		for _, sm := range srcModes[1:] {
			for _, at := range offs {
				if sm.Mode == "seekerr" && at != 0 {
					continue
				}
				idx++
				if idx%vt.NShards() != vt.Shard() {
					continue
				}
				c := b
				c.Src = sm
				c.Src.At = at
				// the source fault alone
				c.K = -1
				runs++
				nt++
				if !vt.CheckOne(rec, "fault", c, checkFault) {
					t.Errorf("violation")
					return
				}
				// and combined with every file-operation fault of that run
				r, n, ok := enumerate(t, c, counts)
				runs += r
				nt += n
				if !ok {
					t.Errorf("violation")
					return
				}
			}
		}
	}
	rec.Eval(runs)
	rec.NonTrivialDistinct(nt)
	for k, c := range counts {
		rec.Class("source-x-file-fault:"+k, c.total)
	}
	rec.Class("source-fault-cases", runs)
	rec.Sample("source-fault", 2, faultCase{Prev: 4, Data: 5, Unrelated: 1, Src: srcFault{Mode: "change", Pass: 2, At: 2048}, K: -1})
}

// ---- random product (rapid) ----

func genFault(t *rapid.T) faultCase {
	dataPool := []int{0, 2, 4, 5, 6, 8, 9, 10}
	c := faultCase{Prev: -1, Data: rapid.SampledFrom(dataPool).Draw(t, "data"), Unrelated: rapid.IntRange(1, 3).Draw(t, "unrelated")}
	if rapid.Bool().Draw(t, "hasprev") {
		c.Prev = rapid.SampledFrom(dataPool).Draw(t, "prev")
	}
	c.Shared = rapid.IntRange(0, 3).Draw(t, "shared") == 0
	c.Dangling = rapid.IntRange(0, 3).Draw(t, "dangling") == 1
	c.Leftover = rapid.IntRange(0, 3).Draw(t, "leftover") == 2
	if rapid.IntRange(0, 3).Draw(t, "damaged") == 0 {
		c.Damage = rapid.SampledFrom([]string{"shorter", "longer", "flip", "empty"}).Draw(t, "damage")
	}
	if rapid.IntRange(0, 2).Draw(t, "srcfault") != 0 {
		c.Src = rapid.SampledFrom(srcModes[1:]).Draw(t, "src")
		c.Src.At = rapid.IntRange(0, len(cachekit.Content(c.Data))).Draw(t, "at")
	}
	if c.Src.Mode == "" && rapid.IntRange(0, 2).Draw(t, "viabytes") == 1 {
		c.ViaBytes = true
	}
	if !c.ViaBytes && rapid.IntRange(0, 3).Draw(t, "noverify") == 2 {
		c.NoVerify = true
	}
	c.K = rapid.IntRange(-1, 16).Draw(t, "k")
	c.Kind = int(rapid.SampledFrom(kinds).Draw(t, "kind"))
	c.Cut = rapid.IntRange(0, 5000).Draw(t, "cut")
	if n := len(cachekit.Content(c.Data)); n >= 2 && rapid.IntRange(0, 7).Draw(t, "observer") == 3 {
		o := faultCase{Prev: c.Prev, Data: c.Data, Unrelated: c.Unrelated, K: c.K, Kind: c.Kind, Cut: c.Cut, Observer: true}
		o.Src = srcFault{Mode: "change", Pass: 2, At: rapid.IntRange(0, n-1).Draw(t, "observerat")}
		if o.Prev == o.Data {
			o.Prev = -1
		}
		return o
	}
	if n := len(cachekit.Content(c.Data)); n >= 2 && rapid.IntRange(0, 4).Draw(t, "peer") == 3 {
		// another writer of the same content at a drawn offset; halts only, plain scenario
		p := faultCase{Prev: c.Prev, Data: c.Data, Unrelated: c.Unrelated, K: c.K, Cut: c.Cut, PeerAt: 1 + rapid.IntRange(0, n-1).Draw(t, "peerat")}
		p.Kind = int(rapid.SampledFrom([]fos.Kind{fos.CrashAfter, fos.CrashBefore, fos.CrashAfterShortWrite}).Draw(t, "peerkind"))
		if p.Prev == p.Data {
			p.Prev = -1
		}
		return p
	}
	return c
}

func TestRandomProduct(t *testing.T) {
	vt.Run(t, rec, vt.Prop[faultCase]{Kind: "fault", Gen: genFault, Check: checkFault, Meta: func(c faultCase) vt.Meta {
		cl := []string{"kind=" + fos.Kind(c.Kind).String()}
		if c.Src.Mode != "" {
			cl = append(cl, "src="+c.Src.Mode)
		}
		if c.PeerAt > 0 {
			cl = append(cl, "other-writer-of-same-content")
		}
		if c.Observer {
			cl = append(cl, "second-handle-completes-and-looks-up-inside")
		}
		if c.NoVerify {
			cl = append(cl, "via-PutNoVerify")
		}
		return vt.Meta{NonTrivial: c.K >= 3 || c.Src.Mode != "", Classes: cl}
	}}, vt.N(1500, 20000))
}

// ---- real SIGKILL (thorough) ----

func writerMain() {
	d := os.Getenv("VERIF_C12_DIR")
	c, err := cache.Open(d)
	if err != nil {
		os.Exit(3)
	}
	fmt.Println("ready")
	for i := 0; ; i++ {
		n := []int{0, 1, 4097, 100 << 10, 1 << 20, 300 << 10}[i%6]
		data := bigContent(i%11, n)
		id := cache.ActionID(cachekit.ID(i % 4))
		c.Put(id, bytes.NewReader(data))
	}
}

func bigContent(salt, n int) []byte {
	b := make([]byte, n)
	x := uint32(salt*7919 + 17)
	for i := range b {
		x = x*1664525 + 1013904223
		b[i] = byte(x >> 24)
	}
	return b
}

type killCase struct {
	DelayUS int `json:"delay_us"`
}

func checkKill(c killCase) *vt.Fail {
	d, err := cachekit.NewDir(cachekit.Scratch(), fmt.Sprintf("c12kill-%d", os.Getpid()))
	if err != nil {
		return vt.Failf("HARNESS-dir", "%v", err)
	}
	cachekit.Clean(d, nil)
	rc, _ := cache.Open(d)
	unrel := cache.ActionID(cachekit.ID(5))
	rc.PutBytes(unrel, []byte("unrelated entry\n"))
	cmd := exec.Command(os.Args[0], "-test.run=^$")
	cmd.Env = append(os.Environ(), "VERIF_ROLE=c12-writer", "VERIF_C12_DIR="+d, "VERIF_OUT=")
	out, _ := cmd.StdoutPipe()
	if err := cmd.Start(); err != nil {
		return vt.Failf("HARNESS-start", "%v", err)
	}
	buf := make([]byte, 6)
	io.ReadFull(out, buf)
	time.Sleep(time.Duration(c.DelayUS) * time.Microsecond)
	cmd.Process.Signal(syscall.SIGKILL)
	cmd.Wait()
	rc, _ = cache.Open(d)
	for i := 0; i < 4; i++ {
		id := cache.ActionID(cachekit.ID(i))
		b, e, err := rc.GetBytes(id)
		if err == nil && sha256.Sum256(b) != e.OutputID {
			return vt.Failf("getbytes-unverified", "after SIGKILL of a writer (delay %dus) GetBytes(id%d) returns bytes not matching the OutputID", c.DelayUS, i)
		} else if err != nil && !notFound(err) {
			return vt.Failf("getbytes-other-error", "after SIGKILL: %v", err)
		}
		file, e, err := rc.GetFile(id)
		if err == nil {
			fb, _ := os.ReadFile(file)
			if int64(len(fb)) != e.Size || sha256.Sum256(fb) != e.OutputID {
				return vt.Failf("getfile-names-bad-file", "after SIGKILL of a writer (delay %dus) GetFile(id%d) names a %d-byte file (reported %d) whose hash is not the OutputID", c.DelayUS, i, len(fb), e.Size)
			}
		}
	}
	if b, _, err := rc.GetBytes(unrel); err != nil || string(b) != "unrelated entry\n" {
		return vt.Failf("unrelated-entry-unreadable", "after SIGKILL the unrelated entry is unreadable: %v", err)
	}
	for i := 0; i < 4; i++ {
		data := bigContent(3, 5000)
		id := cache.ActionID(cachekit.ID(i))
		if err := rc.PutBytes(id, data); err != nil {
			return vt.Failf("store-wedged", "after SIGKILL a Put fails: %v", err)
		}
		if b, _, err := rc.GetBytes(id); err != nil || !bytes.Equal(b, data) {
			return vt.Failf("store-wedged", "after SIGKILL a Put does not make the id readable: %v", err)
		}
	}
	return nil
}

func TestSigkill(t *testing.T) {
	if !vt.Thorough() {
		t.Skip("thorough only")
	}
	vt.Run(t, rec, vt.Prop[killCase]{Kind: "sigkill", Gen: func(t *rapid.T) killCase {
		return killCase{DelayUS: rapid.IntRange(0, 30000).Draw(t, "delay")}
	}, Check: checkKill, Meta: func(c killCase) vt.Meta { return vt.Meta{NonTrivial: true, Classes: []string{"sigkill"}} }}, vt.N(1, 60))
}

var replayers = vt.Replayer{"fault": vt.Decode(checkFault), "sigkill": vt.Decode(checkKill)}

func TestReplay(t *testing.T) { vt.Replay(t, rec, replayers) }
