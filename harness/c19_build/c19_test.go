package c19

import (
	"bytes"
	"fmt"
	"go/build"
	"go/build/constraint"
	"io"
	"sort"
	"strings"
	"testing"
	"unicode"

	"github.com/rogpeppe/go-internal/imports"
	"pgregory.net/rapid"

	"verif/vt"
)

var rec = vt.New("C19")

func TestMain(m *testing.M) { vt.Main(m, rec) }

// ---------- reference, written from the statement ----------

func tagset(tags []string) map[string]bool {
	m := map[string]bool{}
	for _, t := range tags {
		m[t] = true
	}
	return m
}

func wellFormedTag(s string) bool {
	if s == "" {
		return false
	}
	for _, c := range s {
		if !unicode.IsLetter(c) && !unicode.IsDigit(c) && c != '_' && c != '.' {
			return false
		}
	}
	return true
}

// satisfied: is the (possibly negated) term satisfied under tags?
func refTerm(term string, tags map[string]bool) bool {
	neg := false
	if strings.HasPrefix(term, "!") {
		neg = true
		term = term[1:]
	}
	if !wellFormedTag(term) { // includes "", "!x" after stripping one "!" (i.e. "!!x"), lone "!"
		return false
	}
	if tags["*"] && term != "ignore" {
		return true // satisfied in either polarity
	}
	have := tags[term] || (term == "linux" && tags["android"])
	return have != neg
}

func refOption(opt string, tags map[string]bool) bool {
	for _, term := range strings.Split(opt, ",") {
		if !refTerm(term, tags) {
			return false
		}
	}
	return true
}

// refBuildLine: args of a "+build" line (already split into options).
func refBuildLine(opts []string, tags map[string]bool) bool {
	for _, o := range opts {
		if refOption(o, tags) {
			return true
		}
	}
	return false
}

// refShouldBuild: the leading block is the leading run of // comment lines and
// blank lines; only the part of it that is followed by a blank line counts
// (everything up to and including the last blank line of the run).
func refShouldBuild(content string, tags map[string]bool) bool {
	lines := strings.SplitAfter(content, "\n")
	lastBlank := -1
	for i, l := range lines {
		if l == "" { // artefact of SplitAfter at end of input
			break
		}
		t := strings.TrimSpace(l)
		if t == "" {
			lastBlank = i
			continue
		}
		if !strings.HasPrefix(t, "//") {
			break
		}
	}
	ok := true
	for i := 0; i <= lastBlank; i++ {
		t := strings.TrimSpace(lines[i])
		if !strings.HasPrefix(t, "//") {
			continue
		}
		f := strings.Fields(strings.TrimSpace(t[2:]))
		if len(f) == 0 || f[0] != "+build" {
			continue
		}
		if !refBuildLine(f[1:], tags) {
			ok = false
		}
	}
	return ok
}

func refMatchFile(name string, tags map[string]bool) bool {
	if tags["*"] {
		return true
	}
	if i := strings.Index(name, "."); i >= 0 {
		name = name[:i]
	}
	i := strings.Index(name, "_")
	if i < 0 {
		return true
	}
	segs := strings.Split(name[i+1:], "_")
	if n := len(segs); n > 0 && segs[n-1] == "test" {
		segs = segs[:n-1]
	}
	sel := func(t string) bool { return tags[t] || (t == "linux" && tags["android"]) }
	n := len(segs)
	if n >= 2 && imports.KnownOS[segs[n-2]] && imports.KnownArch[segs[n-1]] {
		return sel(segs[n-2]) && sel(segs[n-1])
	}
	if n >= 1 && (imports.KnownOS[segs[n-1]] || imports.KnownArch[segs[n-1]]) {
		return sel(segs[n-1])
	}
	return true
}

// ---------- go/build differential ----------

func goBuildCtx(goos, goarch string, extra []string) build.Context {
	return build.Context{GOOS: goos, GOARCH: goarch, Compiler: "gc", BuildTags: extra, CgoEnabled: false,
		OpenFile: func(path string) (io.ReadCloser, error) { return io.NopCloser(strings.NewReader("package p\n")), nil }}
}

// ---------- cases ----------

type nameCase struct {
	Name string   `json:"name"`
	Tags []string `json:"tags"`
}

func checkName(c nameCase) *vt.Fail {
	tags := tagset(c.Tags)
	var got bool
	if f := vt.Guard("matchfile-panic", func() *vt.Fail { got = imports.MatchFile(c.Name, tags); return nil }); f != nil {
		return f
	}
	want := refMatchFile(c.Name, tags)
	if got != want {
		return vt.Failf("matchfile-wrong", "MatchFile(%q, %v) = %v, the stated rule gives %v", c.Name, c.Tags, got, want)
	}
	// go/build differential on the common sub-domain
	if goos, goarch, ok := singleTarget(c.Tags); ok && diffableName(c.Name) {
		ctx := goBuildCtx(goos, goarch, nil)
		m, err := ctx.MatchFile("/d", c.Name)
		if err == nil && m != got {
			return vt.Failf("matchfile-vs-gobuild", "MatchFile(%q, %v) = %v but go/build.Context{GOOS:%s,GOARCH:%s}.MatchFile = %v", c.Name, c.Tags, got, goos, goarch, m)
		}
		rec.Class("names:gobuild-differential", 1)
	}
	return nil
}

// singleTarget: tags are exactly one known OS and one known arch (no ios/illumos: go/build adds rules the statement does not).
func singleTarget(tags []string) (goos, goarch string, ok bool) {
	if len(tags) != 2 {
		return "", "", false
	}
	for _, t := range tags {
		switch {
		case imports.KnownOS[t] && t != "ios" && t != "illumos":
			goos = t
		case imports.KnownArch[t]:
			goarch = t
		}
	}
	return goos, goarch, goos != "" && goarch != ""
}

func diffableName(name string) bool {
	if !strings.HasSuffix(name, ".go") || name == "" || !(name[0] >= 'a' && name[0] <= 'z') {
		return false
	}
	base := name[:strings.Index(name, ".")]
	for _, s := range strings.Split(base, "_") {
		if s == "wasip1" || s == "ios" || s == "illumos" || s == "solaris" || s == "darwin" && false {
			return false
		}
	}
	return true
}

var segTokens = []string{"linux", "android", "windows", "darwin", "js", "amd64", "arm64", "386", "wasm", "test", "foo", "unix", ""}
var prefixes = []string{"x", "", "linux", "a.b", "x_", "Foo"}
var exts = []string{".go", "_test.go", ".s", "", ".x.go"}
var tagSets = [][]string{
	{"linux", "amd64"}, {"android", "arm64"}, {"android", "amd64"}, {"windows", "386"}, {"darwin", "arm64"}, {"js", "wasm"}, {},
	{"linux", "windows", "amd64", "arm64"}, {"cgo"}, {"*"}, {"*", "ignore"}, {"android"}, {"linux"}, {"arm64"}, {"test"}, {"foo", "unix"},
}

func TestNamesExhaustive(t *testing.T) {
	var total, nt, viol int64
	maxSegs := 3
	if vt.Thorough() {
		maxSegs = 4
	}
	var rec2 func(segs []string)
	visit := func(segs []string) {
		for _, p := range prefixes {
			for _, e := range exts {
				name := p
				for _, s := range segs {
					name += "_" + s
				}
				name += e
				known := false
				if n := len(segs); n > 0 {
					last := segs[n-1]
					if last == "test" && n > 1 {
						last = segs[n-2]
					}
					known = imports.KnownOS[last] || imports.KnownArch[last]
				}
				for _, ts := range tagSets {
					if viol > 5 {
						return
					}
					total++
					if known {
						nt++
					}
					if !vt.CheckOne(rec, "name", nameCase{Name: name, Tags: ts}, checkName) {
						viol++
					}
				}
			}
		}
	}
	idx := 0
	rec2 = func(segs []string) {
		if idx%vt.NShards() == vt.Shard() || len(segs) < 1 {
			if len(segs) >= 1 || vt.Shard() == 0 {
				visit(segs)
			}
		}
		if len(segs) == maxSegs {
			return
		}
		for _, s := range segTokens {
			if len(segs) == 0 {
				idx++
			}
			rec2(append(segs, s))
		}
	}
	rec2(nil)
	rec.Eval(total)
	rec.NonTrivialDistinct(nt)
	rec.Class("names:total", total)
	rec.Class("names:known-suffix", nt)
	rec.Exhaustive(fmt.Sprintf("all file names prefix x 0-%d segments from %q x extensions %q x %d tag sets (this shard: %d)", maxSegs, segTokens, exts, len(tagSets), total))
	rec.Sample("names", 1, nameCase{Name: "x_linux_arm64_test.go", Tags: []string{"android", "arm64"}})
	if viol > 0 {
		t.Errorf("%d violations", viol)
	}
}

// All known OS/arch tokens (from the package's exported tables) in every suffix position.
func TestNamesAllTokens(t *testing.T) {
	var oses, arches []string
	for k := range imports.KnownOS {
		oses = append(oses, k)
	}
	for k := range imports.KnownArch {
		arches = append(arches, k)
	}
	sort.Strings(oses)
	sort.Strings(arches)
	toks := append(append([]string{}, oses...), arches...)
	var total int64
	for _, a := range append(toks, "foo") {
		for _, b := range append(toks, "", "test") {
			for _, suffix := range []string{".go", "_test.go"} {
				name := "f_" + a
				if b != "" {
					name += "_" + b
				}
				name += suffix
				for _, ts := range [][]string{{a, b}, {a}, {b}, {"android", "arm64"}, {"linux", "amd64"}, {}, {"android", b}, {"android", a}} {
					total++
					vt.CheckOne(rec, "name", nameCase{Name: name, Tags: ts}, checkName)
				}
			}
		}
	}
	rec.Eval(total)
	rec.NonTrivialDistinct(total)
	rec.Class("names:all-token-pairs", total)
}

// ---- content ----

type contentCase struct {
	Content vt.B     `json:"content"`
	Tags    []string `json:"tags"`
}

func checkContent(c contentCase) *vt.Fail {
	tags := tagset(c.Tags)
	var got bool
	if f := vt.Guard("shouldbuild-panic", func() *vt.Fail { got = imports.ShouldBuild(append([]byte(nil), c.Content...), tags); return nil }); f != nil {
		return f
	}
	want := refShouldBuild(string(c.Content), tags)
	if got != want {
		return vt.Failf("shouldbuild-wrong", "ShouldBuild(%q, %v) = %v, the stated rule gives %v", c.Content, c.Tags, got, want)
	}
	// per-line differential with go/build/constraint on well-formed lines (harness self-check of the reference)
	if !tags["*"] {
		for _, l := range strings.Split(string(c.Content), "\n") {
			t := strings.TrimSpace(l)
			if !constraint.IsPlusBuild(t) {
				continue
			}
			f := strings.Fields(strings.TrimSpace(t[2:]))
			if len(f) < 2 || !allWellFormed(f[1:]) {
				continue
			}
			x, err := constraint.Parse(t)
			if err != nil {
				continue
			}
			ev := x.Eval(func(tag string) bool { return tags[tag] || (tag == "linux" && tags["android"]) })
			if rv := refBuildLine(f[1:], tags); rv != ev {
				return vt.Failf("HARNESS-ref-vs-constraint", "line %q under %v: reference %v, go/build/constraint %v", t, c.Tags, rv, ev)
			}
			rec.Class("content:constraint-differential-lines", 1)
		}
	}
	// whole-file differential with go/build on the common sub-domain
	if goos, goarch, extra, ok := diffableContent(c); ok {
		ctx := goBuildCtx(goos, goarch, extra)
		content := string(c.Content)
		ctx.OpenFile = func(string) (io.ReadCloser, error) { return io.NopCloser(strings.NewReader(content)), nil }
		m, err := ctx.MatchFile("/d", "f.go")
		if err == nil && m != got {
			return vt.Failf("shouldbuild-vs-gobuild", "ShouldBuild(%q, %v) = %v but go/build MatchFile = %v", c.Content, c.Tags, got, m)
		}
		if err == nil {
			rec.Class("content:gobuild-differential", 1)
		}
	}
	return nil
}

func allWellFormed(opts []string) bool {
	for _, o := range opts {
		for _, term := range strings.Split(o, ",") {
			term = strings.TrimPrefix(term, "!")
			if !wellFormedTag(term) || implicitTag(term) {
				return false
			}
		}
	}
	return true
}

func implicitTag(t string) bool {
	switch t {
	case "gc", "gccgo", "cgo", "unix", "ios", "illumos", "solaris", "darwin", "boringcrypto", "wasip1":
		return true
	}
	return strings.HasPrefix(t, "go1") || strings.HasPrefix(t, "goexperiment")
}

// diffableContent: content made only of // lines, blank lines and a final package clause, every +build line well-formed
// with >=1 option, no //go:build, tags = one OS + one arch + extra non-implicit tags.
func diffableContent(c contentCase) (goos, goarch string, extra []string, ok bool) {
	if tagset(c.Tags)["*"] {
		return
	}
	for _, t := range c.Tags {
		switch {
		case imports.KnownOS[t] && goos == "" && !implicitTag(t):
			goos = t
		case imports.KnownArch[t] && goarch == "":
			goarch = t
		case imports.KnownOS[t] || imports.KnownArch[t] || implicitTag(t) || !wellFormedTag(t):
			return "", "", nil, false
		default:
			extra = append(extra, t)
		}
	}
	if goos == "" || goarch == "" {
		return "", "", nil, false
	}
	s := string(c.Content)
	if !strings.HasSuffix(s, "package p\n") || strings.Contains(s, "go:build") || strings.Contains(s, "/*") || strings.ContainsAny(s, "\r\u0085 \x00") || !isASCII(s) {
		return "", "", nil, false
	}
	for _, l := range strings.Split(strings.TrimSuffix(s, "package p\n"), "\n") {
		t := strings.TrimSpace(l)
		if t == "" {
			continue
		}
		if !strings.HasPrefix(t, "//") {
			return "", "", nil, false
		}
		rest := strings.TrimSpace(t[2:])
		if strings.HasPrefix(rest, "+") {
			f := strings.Fields(rest)
			if f[0] != "+build" {
				// "+buildx" etc: both ignore it
				continue
			}
			if !constraint.IsPlusBuild(t) || len(f) < 2 || !allWellFormed(f[1:]) {
				return "", "", nil, false
			}
		}
	}
	return goos, goarch, extra, true
}

func isASCII(s string) bool {
	for i := 0; i < len(s); i++ {
		if s[i] >= 0x80 {
			return false
		}
	}
	return true
}

var vocab = []string{"linux", "android", "windows", "amd64", "arm64", "386", "foo", "bar", "ignore", "x.y", "_u", "é", "９"}
var badTerms = []string{"", "!", "!!foo", "!!", "a-b", "foo$", "a/b", "!a-b", "(foo)", "foo|bar", "+build"}

func genTerm(t *rapid.T) string {
	switch rapid.IntRange(0, 11).Draw(t, "termkind") {
	case 0:
		return rapid.SampledFrom(badTerms).Draw(t, "bad")
	case 1, 2, 3:
		return "!" + rapid.SampledFrom(vocab).Draw(t, "tag")
	default:
		return rapid.SampledFrom(vocab).Draw(t, "tag")
	}
}

func genBuildLine(t *rapid.T) string {
	var opts []string
	n := rapid.IntRange(0, 4).Draw(t, "nopts")
	if n == 0 && rapid.IntRange(0, 3).Draw(t, "allowempty") != 0 {
		n = 1
	}
	for i := 0; i < n; i++ {
		k := rapid.IntRange(1, 3).Draw(t, "nterms")
		var terms []string
		for j := 0; j < k; j++ {
			terms = append(terms, genTerm(t))
		}
		opts = append(opts, strings.Join(terms, ","))
	}
	lead := rapid.SampledFrom([]string{"// +build ", "// +build ", "// +build ", "//+build ", "//  +build\t", "\t// +build ", "// +buildx ", "// + build ", "// +build,", "/// +build "}).Draw(t, "lead")
	return lead + strings.Join(opts, rapid.SampledFrom([]string{" ", " ", "  ", "\t"}).Draw(t, "sep"))
}

func genContent(t *rapid.T) contentCase {
	var b strings.Builder
	n := rapid.IntRange(0, 7).Draw(t, "nlines")
	eol := "\n"
	if rapid.IntRange(0, 9).Draw(t, "crlf") == 0 {
		eol = "\r\n"
	}
	for i := 0; i < n; i++ {
		switch rapid.IntRange(0, 19).Draw(t, "kind") % 10 {
		case 0, 1, 2, 3, 4:
			b.WriteString(genBuildLine(t))
		case 5, 6:
			b.WriteString(rapid.SampledFrom([]string{"", "", " ", "\t", " "}).Draw(t, "blank"))
		case 7:
			b.WriteString(rapid.SampledFrom([]string{"// Copyright", "// Package p does x.", "//", "// build linux", "//go:generate x"}).Draw(t, "cmt"))
		case 8:
			if rapid.IntRange(0, 3).Draw(t, "other?") != 0 {
				b.WriteString(genBuildLine(t))
				break
			}
			b.WriteString(rapid.SampledFrom([]string{"/* c */", "/*", "import \"x\"", "package q", "x"}).Draw(t, "other"))
		case 9:
			b.WriteString(genBuildLine(t))
		}
		b.WriteString(eol)
	}
	switch rapid.IntRange(0, 7).Draw(t, "tail") {
	case 6:
		// EOF right after the block
	case 7:
		b.WriteString("// +build foo") // no newline, at EOF
	default:
		if rapid.IntRange(0, 4).Draw(t, "blankbefore") != 4 {
			b.WriteString(eol)
		}
		b.WriteString("package p\n")
	}
	// tags
	var tags []string
	switch rapid.IntRange(0, 15).Draw(t, "tagmode") {
	case 14:
		tags = []string{"*"}
	case 15:
		tags = []string{"*", "ignore"}
	default:
		tags = append(tags, rapid.SampledFrom([]string{"linux", "android", "windows"}).Draw(t, "os"), rapid.SampledFrom([]string{"amd64", "arm64", "386"}).Draw(t, "arch"))
		for _, v := range []string{"foo", "bar", "ignore", "x.y", "_u", "é"} {
			if rapid.IntRange(0, 3).Draw(t, "has"+v) == 0 {
				tags = append(tags, v)
			}
		}
	}
	return contentCase{Content: vt.B(b.String()), Tags: tags}
}

func metaContent(c contentCase) vt.Meta {
	s := string(c.Content)
	counted := 0
	rich := false
	// lines counted by the reference
	lines := strings.SplitAfter(s, "\n")
	lastBlank := -1
	for i, l := range lines {
		if l == "" {
			break
		}
		t := strings.TrimSpace(l)
		if t == "" {
			lastBlank = i
			continue
		}
		if !strings.HasPrefix(t, "//") {
			break
		}
	}
	for i := 0; i <= lastBlank; i++ {
		t := strings.TrimSpace(lines[i])
		if strings.HasPrefix(t, "//") {
			f := strings.Fields(strings.TrimSpace(t[2:]))
			if len(f) > 0 && f[0] == "+build" {
				counted++
				if len(f) > 2 || strings.ContainsAny(strings.Join(f[1:], " "), ",!") {
					rich = true
				}
			}
		}
	}
	cl := []string{fmt.Sprintf("counted-build-lines=%d", min(counted, 3))}
	if bytes.Contains(c.Content, []byte("+build")) && counted == 0 {
		cl = append(cl, "build-lines-outside-block")
	}
	if tagset(c.Tags)["*"] {
		cl = append(cl, "star")
	}
	return vt.Meta{NonTrivial: counted >= 1 && rich, Classes: cl}
}

func TestContentRandom(t *testing.T) {
	vt.Run(t, rec, vt.Prop[contentCase]{Kind: "content", Gen: genContent, Check: checkContent, Meta: metaContent}, vt.N(60000, 600000))
}

var hostileContent = []contentCase{
	{Content: vt.B("// +build linux\n\npackage p\n"), Tags: []string{"android", "arm64"}},
	{Content: vt.B("// +build linux\npackage p\n"), Tags: []string{"windows"}},
	{Content: vt.B("// +build !linux\n\npackage p\n"), Tags: []string{"android"}},
	{Content: vt.B("// +build ignore\n\npackage p\n"), Tags: []string{"*"}},
	{Content: vt.B("// +build !ignore\n\npackage p\n"), Tags: []string{"*"}},
	{Content: vt.B("// +build !foo\n\npackage p\n"), Tags: []string{"*", "foo"}},
	{Content: vt.B("// +build\n\npackage p\n"), Tags: []string{"linux"}},
	{Content: vt.B("// +build !!foo !\n\n"), Tags: []string{"linux"}},
	{Content: vt.B("// +build linux,amd64 windows\n\n// +build foo\n\npackage p"), Tags: []string{"linux", "amd64"}},
	{Content: vt.B("\n\n// +build foo"), Tags: []string{}},
}

func TestHostile(t *testing.T) {
	for _, c := range hostileContent {
		rec.Eval(1)
		vt.CheckOne(rec, "content", c, checkContent)
	}
	for _, c := range []nameCase{{"x_linux.go", []string{"android", "arm64"}}, {"x_linux_arm64_test.go", []string{"android", "arm64"}}, {"linux.go", []string{"windows"}}, {"_linux.go", []string{"windows"}}, {"x_linux.go", []string{"*"}}} {
		rec.Eval(1)
		vt.CheckOne(rec, "name", c, checkName)
	}
}

var replayers = vt.Replayer{"name": vt.Decode(checkName), "content": vt.Decode(checkContent)}

func TestReplay(t *testing.T) { vt.Replay(t, rec, replayers) }

func FuzzContent(f *testing.F) {
	for _, c := range hostileContent {
		f.Add([]byte(c.Content), uint8(3))
	}
	f.Fuzz(func(t *testing.T, x []byte, mask uint8) {
		pool := []string{"linux", "android", "amd64", "foo", "ignore", "*", "bar", "windows"}
		var tags []string
		for i, p := range pool {
			if mask&(1<<uint(i)) != 0 {
				tags = append(tags, p)
			}
		}
		c := contentCase{Content: x, Tags: tags}
		if fl := vt.Guard("harness-panic", func() *vt.Fail { return checkContent(c) }); fl != nil {
			if rec.Report("content", fl, c) {
				t.Fatalf("%v", fl)
			}
		}
	})
}
