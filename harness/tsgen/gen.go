// Package tsgen generates testscript scripts with a state-aware generator: it
// carries the reference model while generating, proposes candidate lines whose
// arguments are built from the modelled state (existing/missing paths, text
// that does/does not match, real/wrong counts, wrong arities, unknown commands)
// and keeps a candidate when the model says it has the intended outcome.
// The oracle never sees the intent: it is recomputed from the script text.
package tsgen

import (
	"fmt"
	"path"
	"regexp"
	"strings"

	"golang.org/x/tools/txtar"
	"pgregory.net/rapid"

	"verif/tsmodel"
	"verif/txtarref"
)

type Script struct {
	Name  string                `json:"name"`
	Text  string                `json:"text"`
	Files []tsmodel.ArchiveFile `json:"files"`
	P     tsmodel.Params        `json:"params"`
}

// Bytes renders the script file.
func (s Script) Bytes() []byte {
	a := &txtar.Archive{Comment: []byte(s.Text)}
	for _, f := range s.Files {
		a.Files = append(a.Files, txtar.File{Name: f.Name, Data: []byte(f.Data)})
	}
	return txtar.Format(a)
}

// Representable reports whether the script text and files survive the txtar format unchanged.
func (s Script) Representable() bool {
	if txtarref.HasMarkerLine([]byte(s.Text)) || (s.Text != "" && !strings.HasSuffix(s.Text, "\n")) {
		return false
	}
	// a background helper announces itself through a ready file; the script has to wait for that file on the very next
	// line, or what the following lines see depends on how fast the helper starts (the generator always emits the
	// pair; the shrinker must not take it apart)
	lines := strings.Split(s.Text, "\n")
	for i, l := range lines {
		if j := strings.Index(l, "--ready="); j >= 0 {
			name := l[j+len("--ready="):]
			if k := strings.IndexAny(name, " \t"); k >= 0 {
				name = name[:k]
			}
			if i+1 >= len(lines) || strings.TrimSpace(lines[i+1]) != "exec vmain waitfile "+name {
				return false
			}
		}
	}
	for _, f := range s.Files {
		if f.Name == "" || strings.TrimSpace(f.Name) != f.Name || strings.ContainsAny(f.Name, "\n") {
			return false
		}
		if txtarref.HasMarkerLine([]byte(f.Data)) || (f.Data != "" && !strings.HasSuffix(f.Data, "\n")) {
			return false
		}
	}
	return true
}

type Options struct {
	MaxLines    int
	FailProb    int  // percent of scripts that should contain a failing line
	Exec        bool // allow exec of the helper
	Background  bool
	Custom      bool // allow custom commands/conditions (Params drawn)
	NoParams    bool // keep default Params (CLI sub-domain draws only ContinueOnError)
	AllowChmod2 bool // allow "chmod perm a b" (several paths)
	// Tools allows scripts that install a program of their own and run it (line kind "tool"). Only for scripts that run
	// one at a time in their process: a file that was just written cannot be executed while a child forked by another
	// goroutine during the write has not reached its exec yet (ETXTBSY), which is the operating system's doing.
	Tools bool
	Host  tsmodel.Host
	// FixedParams, if set, is used instead of drawing Params (batches share one RunT call).
	FixedParams *tsmodel.Params
	// PidDir, if set, makes background block helpers record their pid in PidDir/<unique>.
	PidDir string
	// Prologue lines are put at the top of every script.
	Prologue []string
	// ExtraKinds biases the line generator towards the given line kinds.
	ExtraKinds []string
}

// Q quotes a word for a script line when needed.
func Q(w string) string {
	if w == "" {
		return "''"
	}
	if strings.ContainsAny(w, " \t'#\r") {
		// quote only the parts that need it so that $NAME references keep expanding
		if !strings.Contains(w, "$") {
			return "'" + strings.ReplaceAll(w, "'", "''") + "'"
		}
		var b strings.Builder
		for _, part := range splitKeepVars(w) {
			if strings.HasPrefix(part, "$") {
				b.WriteString(part)
			} else if part != "" {
				b.WriteString("'" + strings.ReplaceAll(part, "'", "''") + "'")
			}
		}
		return b.String()
	}
	return w
}

// QL quotes a word literally (no expansion).
func QL(w string) string { return "'" + strings.ReplaceAll(w, "'", "''") + "'" }

var varRef = regexp.MustCompile(`\$\{[A-Za-z_0-9@:/]+\}|\$[A-Za-z_][A-Za-z_0-9]*`)

func splitKeepVars(w string) []string {
	var out []string
	last := 0
	for _, loc := range varRef.FindAllStringIndex(w, -1) {
		out = append(out, w[last:loc[0]], w[loc[0]:loc[1]])
		last = loc[1]
	}
	return append(out, w[last:])
}

func join(words ...string) string {
	var out []string
	for _, w := range words {
		out = append(out, Q(w))
	}
	return strings.Join(out, " ")
}

type gen struct {
	t    *rapid.T
	m    *tsmodel.Model
	o    Options
	p    tsmodel.Params
	nbg  int
	ntag int
}

var contents = []string{"hello world\n", "alpha\nbeta\ngamma\n", "", "one two\none two\nthree\n", "x\n", "line with $VAR and 'quote'\n", ">quoted line\n>second\n", "HOME=$HOME\nwork=${WORK}\n", "tab\there\n", "alpha\nbeta\ngamma\n"}

// (the last two are ordinary files that happen to be called like the captured output of the last command: only cmp, cp and
// stdin give those names their special meaning - and only in the first argument position - grep, exists, rm, mv do not)
// (and two names that are other spellings of a.txt and b.txt: with RequireUniqueNames it is the file that counts)
var fileNames = []string{"a.txt", "b.txt", "sub/c.txt", "sub/deep/d.txt", "e", "want.txt", "golden", "dir2/f.txt", "$WORK/g.txt", "with space.txt", "stdout", "stderr", "$WORK/./a.txt", "$WORK//b.txt"}

func genArchive(t *rapid.T) []tsmodel.ArchiveFile {
	n := rapid.IntRange(0, 6).Draw(t, "nfiles")
	var fs []tsmodel.ArchiveFile
	for i := 0; i < n; i++ {
		fs = append(fs, tsmodel.ArchiveFile{Name: rapid.SampledFrom(fileNames).Draw(t, "fname"), Data: rapid.SampledFrom(contents).Draw(t, "fdata")})
	}
	if rapid.IntRange(0, 2).Draw(t, "tools") == 1 {
		// two-line shell scripts for the scripts that install a program of their own (line kind "tool")
		fs = append(fs, tsmodel.ArchiveFile{Name: "tool.sh", Data: "#!/bin/sh\necho tool-ran\n"})
		if rapid.Bool().Draw(t, "toolfail") {
			fs = append(fs, tsmodel.ArchiveFile{Name: "toolfail.sh", Data: "#!/bin/sh\necho tool-failed\nexit 3\n"})
		}
	}
	return fs
}

func (g *gen) pathTo(target string) string {
	cwd := g.m.Cwd()
	switch {
	case cwd == ".":
		if g.t != nil && rapid.IntRange(0, 7).Draw(g.t, "abswork") == 0 {
			return "$WORK/" + target
		}
		return target
	case target == cwd:
		return "."
	case strings.HasPrefix(target, cwd+"/"):
		return target[len(cwd)+1:]
	default:
		return "$WORK/" + target
	}
}

func (g *gen) existing(kind string) (string, bool) {
	ps := g.m.Paths(kind)
	if len(ps) == 0 {
		return "", false
	}
	return rapid.SampledFrom(ps).Draw(g.t, "existing-"+kind), true
}

func (g *gen) missing() string {
	base := rapid.SampledFrom([]string{"nosuch", "missing.txt", "sub/absent", "zz/yy", "a.txt.bak"}).Draw(g.t, "missing")
	for i := 0; g.m.NodeAt(path.Join(g.m.Cwd(), base)) != nil && i < 5; i++ {
		base += "x"
	}
	return base
}

func (g *gen) fileOrMissing() string {
	if f, ok := g.existing("file"); ok && rapid.IntRange(0, 4).Draw(g.t, "usemissing") != 0 {
		return g.pathTo(f)
	}
	return g.missing()
}

func (g *gen) patternFor(text string, match bool) string {
	if !match {
		return rapid.SampledFrom([]string{"zzz-no-such-text", "NOMATCH[0-9]+", "qqq"}).Draw(g.t, "nomatch")
	}
	words := regexp.MustCompile(`[A-Za-z]+`).FindAllString(text, -1)
	if len(words) == 0 {
		return "."
	}
	w := rapid.SampledFrom(words).Draw(g.t, "word")
	switch rapid.IntRange(0, 3).Draw(g.t, "patkind") {
	case 0:
		return w[:1] + "[a-z]*"
	case 1:
		return "(" + w + "|neverthere)"
	default:
		return w
	}
}

func countMatches(pat, text string) int {
	re, err := regexp.Compile(pat)
	if err != nil {
		return 0
	}
	return len(re.FindAllString(text, -1))
}

// candidate proposes one script line.
func (g *gen) candidate() string {
	t := g.t
	neg := ""
	kinds := []string{"exists", "exists", "grep", "grepcount", "cmp", "cp", "mkdir", "rm", "mv", "cd", "env", "chmod", "symlink", "unquote", "unix2dos", "stdin", "cmpenv", "usage", "unknown", "cond", "comment", "blank", "stop", "skip", "phaseskip"}
	if g.o.Exec {
		kinds = append(kinds, "exec", "exec", "exec", "stdout", "stdout", "stderr", "helpercmd", "tool", "tool")
	}
	if g.o.Exec && g.o.Background {
		kinds = append(kinds, "bg", "bg", "wait", "kill", "bgwait", "bgwait", "bgmix", "bgend", "bgmany", "bgmany", "bgdup")
	}
	if g.p.CustomCmds {
		kinds = append(kinds, "probe", "probe", "probe", "failcmd", "cemit", "setenv", "defer", "getenv")
		if g.o.Exec {
			kinds = append(kinds, "cexec", "cexec")
		}
	}
	kinds = append(kinds, g.o.ExtraKinds...)
	k := rapid.SampledFrom(kinds).Draw(t, "kind")
	if rapid.IntRange(0, 99).Draw(t, "longline") == 57 {
		// one physical line longer than 64 KiB (the default token limit of a bufio.Scanner) or 4 KiB
		n := rapid.SampledFrom([]int{4100, 65530, 65536, 70000, 140000}).Draw(t, "longlen")
		switch rapid.IntRange(0, 2).Draw(t, "longkind") {
		case 0:
			return "# " + strings.Repeat("long comment ", n/13+1)[:n]
		case 1:
			if n > 70000 {
				n = 70000 // a single environment string above 128 KiB makes every later execve fail (E2BIG)
			}
			return "env LONG=" + strings.Repeat("0123456789abcdef", n/16+1)[:n]
		default:
			return "exists " + strings.Repeat("           ", n/11+1)[:n] + " ."
		}
	}
	if rapid.IntRange(0, 3).Draw(t, "neg") == 0 {
		neg = "! "
	}
	switch k {
	case "exists":
		ro := ""
		if rapid.IntRange(0, 5).Draw(t, "ro") == 0 {
			ro = "-readonly "
		}
		n := rapid.IntRange(1, 2).Draw(t, "n")
		var fs []string
		for i := 0; i < n; i++ {
			if p, ok := g.existing(""); ok && rapid.Bool().Draw(t, "ex") {
				fs = append(fs, Q(g.pathTo(p)))
			} else if f, ok := g.existing("file"); ok && rapid.IntRange(0, 3).Draw(t, "through") == 2 {
				// a path that leads through a regular file, or a name too long for the file system: there is nothing
				// there, although looking fails in another way than "no such file"
				if rapid.Bool().Draw(t, "toolong") {
					fs = append(fs, strings.Repeat("n", 300))
				} else {
					fs = append(fs, Q(g.pathTo(f)+"/below"))
				}
			} else {
				fs = append(fs, Q(g.missing()))
			}
		}
		return neg + "exists " + ro + strings.Join(fs, " ")
	case "grep":
		f, ok := g.existing("file")
		if !ok {
			return neg + "grep x " + Q(g.missing())
		}
		text := g.m.NodeAt(f).Data
		pat := g.patternFor(text, rapid.IntRange(0, 2).Draw(t, "match") != 0)
		cnt := ""
		if rapid.IntRange(0, 3).Draw(t, "count") == 0 {
			c := countMatches(pat, text)
			if rapid.IntRange(0, 2).Draw(t, "wrongcount") == 0 {
				c += rapid.SampledFrom([]int{-1, 1, 2}).Draw(t, "delta")
			}
			cnt = fmt.Sprintf("-count=%d ", c)
		}
		return neg + "grep " + cnt + Q(pat) + " " + Q(g.pathTo(f))
	case "grepcount":
		// a word that occurs several times, with -count below, at or above the real count
		for _, f := range g.m.Paths("file") {
			text := g.m.NodeAt(f).Data
			for _, w := range regexp.MustCompile(`[a-z]+`).FindAllString(text, -1) {
				if c := countMatches(w, text); c >= 2 {
					n := c + rapid.SampledFrom([]int{-1, 0, 1, -1}).Draw(t, "cdelta")
					return fmt.Sprintf("grep -count=%d %s %s", n, w, Q(g.pathTo(f)))
				}
			}
		}
		return "grep -count=1 alpha " + Q(g.fileOrMissing())
	case "stdout", "stderr":
		text := g.m.Stdout()
		if k == "stderr" {
			text = g.m.Stderr()
		}
		pat := g.patternFor(text, rapid.IntRange(0, 2).Draw(t, "match") != 0)
		cnt := ""
		if rapid.IntRange(0, 3).Draw(t, "count") == 0 {
			c := countMatches(pat, text)
			if rapid.IntRange(0, 2).Draw(t, "wrongcount") == 0 {
				c++
			}
			cnt = fmt.Sprintf("-count=%d ", c)
		}
		return neg + k + " " + cnt + Q(pat)
	case "cmp", "cmpenv":
		a := g.fileOrMissing()
		if g.o.Exec && rapid.IntRange(0, 3).Draw(t, "std") == 0 {
			a = rapid.SampledFrom([]string{"stdout", "stderr"}).Draw(t, "stdname")
		}
		b := g.fileOrMissing()
		if rapid.IntRange(0, 9).Draw(t, "same") == 0 {
			b = a
		}
		return neg + k + " " + Q(a) + " " + Q(b)
	case "cp":
		n := rapid.IntRange(1, 2).Draw(t, "nsrc")
		var ws []string
		for i := 0; i < n; i++ {
			if g.o.Exec && rapid.IntRange(0, 5).Draw(t, "std") == 0 {
				ws = append(ws, rapid.SampledFrom([]string{"stdout", "stderr"}).Draw(t, "stdname"))
			} else {
				ws = append(ws, Q(g.fileOrMissing()))
			}
		}
		dst := rapid.SampledFrom([]string{"copy.txt", "sub/copy2.txt", "newdir/x"}).Draw(t, "dst")
		if d, ok := g.existing("dir"); ok && rapid.Bool().Draw(t, "todir") {
			dst = g.pathTo(d)
		} else if f, ok := g.existing("file"); ok && rapid.IntRange(0, 3).Draw(t, "overwrite") == 0 {
			dst = g.pathTo(f)
		}
		return neg + "cp " + strings.Join(ws, " ") + " " + Q(dst)
	case "mkdir":
		d := rapid.SampledFrom([]string{"newdir", "sub", "sub/deep/er", "dir2", "m/n/o"}).Draw(t, "mkd")
		if f, ok := g.existing("file"); ok && rapid.IntRange(0, 7).Draw(t, "onfile") == 0 {
			d = g.pathTo(f)
		}
		return neg + "mkdir " + Q(d)
	case "rm":
		if p, ok := g.existing(""); ok && rapid.IntRange(0, 3).Draw(t, "ex") != 0 {
			return neg + "rm " + Q(g.pathTo(p))
		}
		return neg + "rm " + Q(g.missing())
	case "mv":
		src := g.fileOrMissing()
		if d, ok := g.existing("dir"); ok && rapid.IntRange(0, 4).Draw(t, "mvdir") == 0 {
			src = g.pathTo(d)
		}
		dst := rapid.SampledFrom([]string{"moved.txt", "sub/moved", "renamed"}).Draw(t, "mvdst")
		if f, ok := g.existing("file"); ok && rapid.IntRange(0, 4).Draw(t, "overwrite") == 0 {
			dst = g.pathTo(f)
		}
		return neg + "mv " + Q(src) + " " + Q(dst)
	case "cd":
		if d, ok := g.existing("dir"); ok && rapid.IntRange(0, 4).Draw(t, "ex") != 0 {
			return neg + "cd " + Q(g.pathTo(d))
		}
		if rapid.Bool().Draw(t, "cdup") && g.m.Cwd() != "." {
			return neg + "cd .."
		}
		return neg + "cd " + Q(g.fileOrMissing())
	case "env":
		name := rapid.SampledFrom([]string{"VAR", "FOO", "HOME", "X_1", "GREETING"}).Draw(t, "envname")
		val := rapid.SampledFrom([]string{"value", "two words", "", "a=b", "it's", "$HOME", "#hash"}).Draw(t, "envval")
		switch rapid.IntRange(0, 9).Draw(t, "envform") {
		case 7:
			return neg + "env" // list the environment
		case 8:
			return neg + "env " + name // display one variable
		case 9:
			return neg + "env " + Q(name+"="+val) + " " + name + " OTHER=" + Q(val)
		}
		return neg + "env " + Q(name+"="+val)
	case "chmod":
		mode := rapid.SampledFrom([]string{"444", "555", "644", "755", "600", "000", "888", "1777", "rw"}).Draw(t, "mode")
		p1 := g.fileOrMissing()
		if d, ok := g.existing("dir"); ok && rapid.IntRange(0, 3).Draw(t, "dir") == 0 {
			p1 = g.pathTo(d)
		}
		if g.o.AllowChmod2 && rapid.IntRange(0, 4).Draw(t, "two") == 0 {
			return neg + "chmod " + mode + " " + Q(p1) + " " + Q(g.fileOrMissing())
		}
		return neg + "chmod " + mode + " " + Q(p1)
	case "symlink":
		name := rapid.SampledFrom([]string{"link1", "sub/link2", "l3"}).Draw(t, "lname")
		target := rapid.SampledFrom([]string{"a.txt", "nosuchtarget", "sub", "../a.txt"}).Draw(t, "ltarget")
		arrow := "->"
		if rapid.IntRange(0, 9).Draw(t, "noarrow") == 0 {
			arrow = "to"
		}
		return neg + "symlink " + name + " " + arrow + " " + target
	case "unquote", "unix2dos":
		return neg + k + " " + Q(g.fileOrMissing())
	case "stdin":
		return neg + "stdin " + Q(g.fileOrMissing())
	case "usage":
		return neg + rapid.SampledFrom([]string{"cd", "cd a b", "cmp a.txt", "cmp a b c", "cp a.txt", "exists", "mkdir", "mv a.txt", "rm", "stdin", "stdin a b", "symlink a b", "wait a b", "skip a b", "stop a b", "grep x", "stdout", "stdout a b", "chmod 644", "exec", "unix2dos", "kill -HUP", "grep -count=0 x a.txt", "grep -count=x x a.txt"}).Draw(t, "usage")
	case "unknown":
		return neg + rapid.SampledFrom([]string{"exist a.txt", "gerp x a.txt", "copy a b", "cmpp a b", "nosuchcmd", "!exists a.txt", "Exists a.txt", "mkdirs x", "probe2 x", "vmainx emit"}).Draw(t, "unknowncmd")
	case "cond":
		conds := []string{"[linux]", "[!linux]", "[windows]", "[!windows]", "[unix]", "[amd64]", "[!arm]", "[gc]", "[gccgo]", "[go1.1]", "[go1.999]", "[!go1.999]", "[symlink]", "[link]",
			"[exec:vmain]", "[!exec:vmain]", "[exec:nosuchprog1]", "[!exec:nosuchprog2]", "[nosuchcondition]", "[ctrue]", "[cfalse]", "[!cfalse]", "[cerr]", "[ linux ]", "[! windows]", "[short]", "[!short]"}
		c := rapid.SampledFrom(conds).Draw(t, "cond")
		if rapid.IntRange(0, 3).Draw(t, "stack") == 0 {
			c += " " + rapid.SampledFrom(conds).Draw(t, "cond2")
		}
		inner := g.simple()
		if rapid.IntRange(0, 14).Draw(t, "noinner") == 0 {
			inner = ""
		}
		return strings.TrimSpace(c + " " + inner)
	case "comment":
		return rapid.SampledFrom([]string{"# phase comment", "#", "   # indented comment", "# exists nosuch"}).Draw(t, "comment")
	case "blank":
		return rapid.SampledFrom([]string{"", "   ", "\t"}).Draw(t, "blank")
	case "stop":
		if rapid.IntRange(0, 3).Draw(t, "reallystop") != 0 {
			return g.simple()
		}
		return neg + rapid.SampledFrom([]string{"stop", "stop 'enough done'"}).Draw(t, "stop")
	case "skip":
		if rapid.IntRange(0, 3).Draw(t, "reallyskip") != 0 {
			return g.simple()
		}
		return neg + rapid.SampledFrom([]string{"skip", "skip 'not today'"}).Draw(t, "skip")
	case "cexec":
		// a program run by a custom command through TestScript.Exec; now and then with input set up first
		pre := ""
		if rapid.IntRange(0, 2).Draw(t, "withstdin") == 0 {
			if p, ok := g.existing("file"); ok {
				pre = "stdin " + Q(g.pathTo(p)) + "\n"
			}
		}
		if rapid.IntRange(0, 11).Draw(t, "missingprog") == 0 {
			return neg + "cexec nosuchprog arg"
		}
		post := ""
		if pre != "" && rapid.Bool().Draw(t, "thencat") {
			// the input was used up by the custom command's program: a later program sees none
			post = "\nexec vmain cat\n! stdout ."
		}
		return pre + neg + "cexec vmain " + g.helperArgs() + post
	case "tool":
		// a program the script installs itself, under a name that exists nowhere on the host: a directory of the script's
		// own is put in front of PATH, the name is looked up once while nothing is there (or not), a shell script from the
		// archive is copied under that name and made executable, and the name is run. Every lookup of a bare name happens
		// when its line runs, whatever an earlier line found under that name.
		if n := g.m.NodeAt("tool.sh"); !g.o.Tools || n == nil || n.Kind != "file" {
			return g.simple()
		}
		g.ntag++
		dir, prog := fmt.Sprintf("$WORK/tbin%d", g.ntag), fmt.Sprintf("zzprog%d", g.ntag)
		ls := []string{"mkdir " + dir, "env PATH=" + dir + "${:}$PATH"}
		switch rapid.IntRange(0, 3).Draw(t, "toolfirst") {
		case 0:
			ls = append(ls, "! exec "+prog)
		case 1:
			ls = append(ls, "["+"!exec:"+prog+"] exists $WORK/tool.sh")
		case 2:
			ls = append(ls, "[exec:"+prog+"] stop")
		}
		src := "tool.sh"
		if n := g.m.NodeAt("toolfail.sh"); n != nil && n.Kind == "file" && rapid.IntRange(0, 2).Draw(t, "toolsrc") == 0 {
			src = "toolfail.sh"
		}
		ls = append(ls, "cp $WORK/"+src+" "+dir+"/"+prog, "chmod 755 "+dir+"/"+prog)
		if src == "tool.sh" {
			ls = append(ls, neg+"exec "+prog, "stdout tool-ran")
		} else {
			if rapid.IntRange(0, 3).Draw(t, "toolwrongdemand") != 0 {
				neg = "! "
			}
			ls = append(ls, neg+"exec "+prog, "stdout tool-failed")
		}
		if rapid.IntRange(0, 2).Draw(t, "toolgone") == 0 {
			// and the name stops being a program again
			ls = append(ls, rapid.SampledFrom([]string{"chmod 644 " + dir + "/" + prog, "rm " + dir + "/" + prog}).Draw(t, "toolgonehow"), "! exec "+prog)
		}
		return strings.Join(ls, "\n")
	case "exec", "helpercmd":
		prefix := "exec vmain "
		if k == "helpercmd" {
			prefix = rapid.SampledFrom([]string{"vmain ", "vhelper ", "exec vhelper "}).Draw(t, "hprefix")
		}
		if rapid.IntRange(0, 11).Draw(t, "missingprog") == 0 {
			if g.o.Background && rapid.Bool().Draw(t, "missingbg") {
				// a background command that cannot even be started: the line does not meet its demand
				return neg + "exec nosuchprog arg " + rapid.SampledFrom([]string{"&", "&nb&"}).Draw(t, "missingspec")
			}
			return neg + "exec nosuchprog arg"
		}
		return neg + prefix + g.helperArgs()
	case "bg":
		g.nbg++
		if g.o.PidDir != "" && rapid.IntRange(0, 24).Draw(t, "grandchild") == 13 {
			// a background command that is over at once but leaves a grandchild holding its output pipes for a few
			// seconds: the wait - and with it the end of the script - takes until the grandchild is gone
			return fmt.Sprintf("exec vmain spawn --pid=%s/p%d-%d 3500 &\nwait", g.o.PidDir, rapid.IntRange(0, 1<<30).Draw(t, "pidtag"), g.nbg)
		}
		spec := "&"
		if rapid.Bool().Draw(t, "named") {
			spec = fmt.Sprintf("&b%d&", rapid.IntRange(1, 3).Draw(t, "bgname"))
		}
		if rapid.IntRange(0, 2).Draw(t, "block") == 0 {
			ready := fmt.Sprintf("ready%d", g.nbg)
			flags := "--ready=" + ready
			if g.o.PidDir != "" {
				flags += fmt.Sprintf(" --pid=%s/p%d-%d", g.o.PidDir, rapid.IntRange(0, 1<<30).Draw(t, "pidtag"), g.nbg)
			}
			if rapid.Bool().Draw(t, "eoi") {
				flags += " --exit-on-int"
			}
			if rapid.IntRange(0, 2).Draw(t, "out") == 0 {
				flags += " -o bgout\\n"
			}
			return neg + "exec vmain block " + flags + " " + spec + "\nexec vmain waitfile " + ready
		}
		return neg + "exec vmain " + g.helperArgs() + " " + spec
	case "bgdup":
		// a background command under a name that is still on the list (running, or over and not waited for): the line is
		// refused and nothing is started - so the helper has no --ready file anybody could wait for, and its pid file,
		// should it ever appear, names a process nobody is going to stop
		var names []string
		for _, n := range g.m.Background() {
			if n != "" {
				names = append(names, n)
			}
		}
		if len(names) == 0 {
			return g.simple()
		}
		g.nbg++
		flags := ""
		if g.o.PidDir != "" {
			flags = fmt.Sprintf(" --pid=%s/p%d-%d", g.o.PidDir, rapid.IntRange(0, 1<<30).Draw(t, "pidtag"), g.nbg)
		}
		return neg + "exec vmain block" + flags + " &" + rapid.SampledFrom(names).Draw(t, "dupname") + "&"
	case "bgend":
		// end the script (skip or stop) while background commands are still running
		if len(g.m.Background()) == 0 {
			return g.simple()
		}
		return rapid.SampledFrom([]string{"skip", "stop", "skip 'later'", "stop 'enough'"}).Draw(t, "bgend")
	case "bgmix":
		// several named and anonymous background helpers in a drawn order, then one named helper is
		// signalled and waited for while the others keep running until the script ends
		var ls []string
		var named []string
		n := rapid.IntRange(2, 5).Draw(t, "nmix")
		for i := 0; i < n; i++ {
			g.nbg++
			ready := fmt.Sprintf("ready%d", g.nbg)
			flags := "--ready=" + ready
			if g.o.PidDir != "" {
				flags += fmt.Sprintf(" --pid=%s/p%d-%d", g.o.PidDir, rapid.IntRange(0, 1<<30).Draw(t, "pidtag"), g.nbg)
			}
			spec := "&"
			pre := ""
			if rapid.IntRange(0, 2).Draw(t, "mixnamed") == 0 || (i == n-1 && len(named) == 0) {
				name := fmt.Sprintf("m%d", g.nbg)
				named = append(named, name)
				spec = "&" + name + "&"
				pre = "! " // it will be killed: a command that must fail
			}
			ls = append(ls, pre+"exec vmain block "+flags+" "+spec, "exec vmain waitfile "+ready)
		}
		target := rapid.SampledFrom(named).Draw(t, "mixtarget")
		ls = append(ls, "kill "+rapid.SampledFrom([]string{"", "-KILL ", "-INT "}).Draw(t, "sig")+target, "wait "+target)
		return strings.Join(ls, "\n")
	case "bgwait":
		// start a background command with a chosen exit status and wait for it right away
		g.nbg++
		name := fmt.Sprintf("w%d", g.nbg)
		code := rapid.SampledFrom([]string{"0", "0", "1", "3"}).Draw(t, "bgcode")
		w := "wait " + name
		if rapid.Bool().Draw(t, "waitall") {
			w = "wait"
		}
		return neg + "exec vmain emit -o bg\\n -x " + code + " &" + name + "&\n" + w
	case "bgmany":
		// several short-lived background commands with drawn exit statuses and demands, then the unnamed wait:
		// the first command that violates its demand decides, wherever it stands in the list
		var ls []string
		var manyNames []string
		for i, n := 0, rapid.IntRange(2, 5).Draw(t, "nmany"); i < n; i++ {
			g.nbg++
			spec := "&"
			if rapid.IntRange(0, 2).Draw(t, "manynamed") == 1 {
				spec = fmt.Sprintf("&y%d&", g.nbg)
				manyNames = append(manyNames, fmt.Sprintf("y%d", g.nbg))
			}
			ng := ""
			if rapid.IntRange(0, 2).Draw(t, "manyneg") == 1 {
				ng = "! "
			}
			ls = append(ls, fmt.Sprintf("%sexec vmain emit -o out%d\\n -x %s %s", ng, g.nbg, rapid.SampledFrom([]string{"0", "0", "1", "2"}).Draw(t, "manycode"), spec))
		}
		if rapid.IntRange(0, 2).Draw(t, "manyblocker") == 1 {
			// and last on the list a helper that never exits by itself: the unnamed wait must fail on one of the
			// earlier commands (otherwise the script would wait for ever, and the reference interpreter abstains), and
			// the end of the script then has to stop the helper
			g.nbg++
			ready := fmt.Sprintf("ready%d", g.nbg)
			flags := "--ready=" + ready
			if g.o.PidDir != "" {
				flags += fmt.Sprintf(" --pid=%s/p%d-%d", g.o.PidDir, rapid.IntRange(0, 1<<30).Draw(t, "pidtag"), g.nbg)
			}
			ls = append(ls, "exec vmain block "+flags+" &", "exec vmain waitfile "+ready)
		}
		if len(manyNames) > 0 && rapid.Bool().Draw(t, "manywaitone") {
			// first wait for one of the named ones: the others stay on the list for the unnamed wait
			ls = append(ls, "wait "+rapid.SampledFrom(manyNames).Draw(t, "manywaitname"))
		}
		return strings.Join(ls, "\n") + "\n" + "wait"
	case "phaseskip":
		// a new phase (comment line) and then skip: after an earlier failure under ContinueOnError the run must
		// still be reported as failed
		if !g.m.Failed() {
			return g.simple()
		}
		return rapid.SampledFrom([]string{"# next phase", "#", "# cleanup"}).Draw(t, "phasecmt") + "\n" + g.simple() + "\n" + rapid.SampledFrom([]string{"skip", "skip 'rest not applicable'"}).Draw(t, "phaseskip")
	case "wait":
		names, _ := g.m.BlockedBackground()
		if len(names) > 0 {
			n := rapid.SampledFrom(names).Draw(t, "killname")
			sig := rapid.SampledFrom([]string{"", "-KILL ", "-INT "}).Draw(t, "sig")
			return "kill " + sig + n + "\n" + neg + "wait " + n
		}
		if bgs := g.m.Background(); len(bgs) > 0 && rapid.Bool().Draw(t, "waitnamed") {
			if n := rapid.SampledFrom(bgs).Draw(t, "waitname"); n != "" {
				return neg + "wait " + n
			}
		}
		return neg + rapid.SampledFrom([]string{"wait", "wait", "wait nosuchbg"}).Draw(t, "wait")
	case "kill":
		names, unnamed := g.m.BlockedBackground()
		if len(names) > 0 && rapid.Bool().Draw(t, "byname") {
			return neg + "kill " + rapid.SampledFrom([]string{"", "-KILL ", "-INT "}).Draw(t, "sig") + rapid.SampledFrom(names).Draw(t, "killname")
		}
		if unnamed > 0 || len(names) > 0 {
			return neg + "kill" + rapid.SampledFrom([]string{"", " -KILL", " -INT"}).Draw(t, "sig")
		}
		return neg + rapid.SampledFrom([]string{"kill nosuchbg", "kill -HUP", "kill"}).Draw(t, "killbad")
	case "probe":
		n := rapid.IntRange(0, 3).Draw(t, "nargs")
		ws := []string{"probe"}
		for i := 0; i < n; i++ {
			ws = append(ws, rapid.SampledFrom([]string{"a", "two words", "$WORK", "$VAR", "'lit$VAR'", "x#y", "", "it''s"}).Draw(t, "parg"))
		}
		var out []string
		for i, w := range ws {
			if i == 0 || strings.HasPrefix(w, "$") || strings.HasPrefix(w, "'") {
				out = append(out, w)
			} else {
				out = append(out, Q(w))
			}
		}
		return neg + strings.Join(out, " ")
	case "failcmd":
		return neg + "failcmd now"
	case "cemit":
		return "cemit -o " + Q(rapid.SampledFrom([]string{"custom out\\n", "alpha beta\\n"}).Draw(t, "co")) + " -e " + Q(rapid.SampledFrom([]string{"custom err\\n", ""}).Draw(t, "ce"))
	case "setenv":
		return "setenv " + rapid.SampledFrom([]string{"VAR", "FOO", "NEWVAR"}).Draw(t, "sname") + " " + Q(rapid.SampledFrom([]string{"set by command", "v2", ""}).Draw(t, "sval"))
	case "defer":
		g.ntag++
		return fmt.Sprintf("defer d%d", g.ntag)
	case "getenv":
		return "getenv " + rapid.SampledFrom([]string{"VAR", "FOO", "HOME", "WORK", "NEWVAR", "UNSETVAR"}).Draw(t, "gname")
	}
	return "exists ."
}

func (g *gen) helperArgs() string {
	t := g.t
	switch rapid.IntRange(0, 7).Draw(t, "helper") {
	case 0, 1, 2:
		s := "emit"
		if rapid.IntRange(0, 4).Draw(t, "o") != 0 {
			s += " -o " + Q(rapid.SampledFrom([]string{"hello out\\n", "alpha\\nbeta\\n", "one two\\n", "x"}).Draw(t, "otext"))
		}
		if rapid.IntRange(0, 2).Draw(t, "e") == 0 {
			s += " -e " + Q(rapid.SampledFrom([]string{"warning: something\\n", "err text\\n"}).Draw(t, "etext"))
		}
		if rapid.IntRange(0, 2).Draw(t, "x") == 0 {
			s += " -x " + rapid.SampledFrom([]string{"1", "2", "0", "3"}).Draw(t, "code")
		}
		return s
	case 3:
		return "cat"
	case 4:
		return "printenv " + rapid.SampledFrom([]string{"VAR", "FOO HOME", "WORK", "TMPDIR GREETING", "PWD", "UNSETVAR"}).Draw(t, "pnames")
	case 5:
		return "pwd"
	case 6:
		return "touch " + Q(rapid.SampledFrom([]string{"touched.txt", "sub/t2", "a.txt"}).Draw(t, "tfile"))
	default:
		return "args " + Q(rapid.SampledFrom([]string{"a b", "$VAR", "x"}).Draw(t, "aarg")) + " second"
	}
}

// simple returns a short line that usually succeeds.
func (g *gen) simple() string {
	t := g.t
	switch rapid.IntRange(0, 4).Draw(t, "simple") {
	case 0:
		if p, ok := g.existing(""); ok {
			return "exists " + Q(g.pathTo(p))
		}
		return "! exists nosuchfile"
	case 1:
		return "mkdir " + rapid.SampledFrom([]string{"made1", "made2", "sub/made3"}).Draw(t, "smk")
	case 2:
		return "env " + rapid.SampledFrom([]string{"S1=v1", "S2=v2"}).Draw(t, "senv")
	case 3:
		if g.p.CustomCmds {
			return "probe guarded"
		}
		return "! exists nosuchfile"
	default:
		if g.o.Exec {
			return "exec vmain emit -o guarded\\n"
		}
		return "exists ."
	}
}

// Gen draws a script.
func Gen(t *rapid.T, o Options) Script {
	s := Script{Name: "s"}
	if o.FixedParams != nil {
		s.P = *o.FixedParams
	} else if !o.NoParams {
		s.P.ContinueOnError = rapid.IntRange(0, 3).Draw(t, "continue") == 0
		s.P.RequireExplicitExec = rapid.IntRange(0, 4).Draw(t, "explicitexec") == 0
		s.P.RequireUniqueNames = rapid.IntRange(0, 4).Draw(t, "uniquenames") == 0
		if o.Custom {
			s.P.CustomCmds = rapid.IntRange(0, 3).Draw(t, "customcmds") != 0
			s.P.CustomCond = rapid.IntRange(0, 2).Draw(t, "customcond") != 0
		}
	} else {
		s.P.ContinueOnError = rapid.IntRange(0, 3).Draw(t, "continue") == 0
	}
	s.Files = genArchive(t)
	host := o.Host
	if host.WorkAbs == "" {
		host.WorkAbs = "/WORKDIR"
	}
	g := &gen{t: t, m: tsmodel.New(s.P, host, s.Files), o: o, p: s.P}
	max := o.MaxLines
	if max == 0 {
		max = 25
	}
	n := rapid.IntRange(1, max).Draw(t, "nlines")
	wantFail := rapid.IntRange(0, 99).Draw(t, "wantfail") < o.FailProb
	failAt := -1
	if wantFail {
		failAt = rapid.IntRange(0, n-1).Draw(t, "failat")
	}
	var lines []string
	for _, l := range o.Prologue {
		g.m.Step(l)
		lines = append(lines, l)
	}
	for i := 0; i < n; i++ {
		var chosen string
		for try := 0; try < 6; try++ {
			cand := g.candidate()
			if strings.Contains(cand, "\n-- ") || strings.HasPrefix(cand, "-- ") {
				continue
			}
			c := g.m.Clone()
			ok := true
			for _, l := range strings.Split(cand, "\n") {
				if !c.Step(l) {
					ok = false
				}
			}
			if c.Unmodelled() != "" {
				continue // stay inside the modelled language (it also excludes scripts that would hang)
			}
			chosen = cand
			intendFail := i == failAt || (g.m.Failed() && rapid.IntRange(0, 4).Draw(t, "failagain") == 0)
			if ok != intendFail {
				break
			}
		}
		if chosen == "" {
			chosen = "exists ."
		}
		for _, l := range strings.Split(chosen, "\n") {
			g.m.Step(l)
			lines = append(lines, l)
		}
		// keep generating after the script has ended: later lines must have no effect
		if g.m.Done() && rapid.IntRange(0, 2).Draw(t, "tail") == 0 {
			extra := rapid.IntRange(1, 3).Draw(t, "ntail")
			for j := 0; j < extra; j++ {
				tail := rapid.SampledFrom([]string{"mkdir after-the-end", "probe after-the-end", "env AFTER=1", "cp a.txt after.txt", "exists nosuch-after"}).Draw(t, "tailline")
				lines = append(lines, tail)
			}
			break
		}
		if g.m.Done() {
			break
		}
	}
	s.Text = strings.Join(lines, "\n") + "\n"
	return s
}
