package c13

import (
	"bytes"
	"crypto/sha256"
	"fmt"
	"os"
	"path/filepath"
	"sort"
	"strconv"
	"strings"
	"sync"
	"testing"
	"time"

	"github.com/rogpeppe/go-internal/cache"
	"pgregory.net/rapid"

	"verif/cachekit"
	"verif/vt"
)

var rec = vt.New("C13")

func TestMain(m *testing.M) {
	// Two shards in three run in a local time zone whose offset changed twelve hours ago, by one hour forward or back
	// (a process in a zone with daylight-saving time, the day after the change): the statement's "a day" and "five
	// days" are durations, not calendar days, so nothing may depend on the zone.
	switch vt.Shard() % 3 {
	case 1:
		if z, err := cachekit.ZoneWithTransition("Forward", time.Now().Add(-12*time.Hour), -5*3600, -4*3600); err == nil {
			time.Local = z
		}
	case 2:
		if z, err := cachekit.ZoneWithTransition("Back", time.Now().Add(-12*time.Hour), -4*3600, -5*3600); err == nil {
			time.Local = z
		}
	}
	vt.Main(m, rec)
}

const (
	nIDs   = 5
	nCont  = 4 // contents 1,2,3,7 of cachekit (small)
	margin = 2 * time.Minute
	day    = 24 * time.Hour
)

var contNums = []int{1, 2, 3, 7}

type op struct {
	Op   string `json:"op"` // put get getbytes getfile outputfile advance trim plant trimtxt
	ID   int    `json:"id,omitempty"`
	C    int    `json:"c,omitempty"`
	Sec  int64  `json:"sec,omitempty"`  // advance: seconds; plant: age in seconds; trimtxt: offset seconds (now - value)
	Name string `json:"name,omitempty"` // plant: relative path
	Txt  string `json:"txt,omitempty"`  // trimtxt: literal content ("" => use Sec; "missing" => delete)
	// put with TrimAt > 0: while this Put has copied TrimAt-1 bytes of its second pass, another user of the directory
	// (its own handle) runs Trim; the Put then carries on. (No second pass happens when the output is already there.)
	TrimAt int `json:"trim_at,omitempty"`
	// trimtxt with Txt == "": how the value now-Sec is written (fmt verbs applied to the Unix time; "" => "%d").
	// The record counts as a time exactly when the whole content, surrounding white space aside, is a decimal integer.
	Fmt string `json:"fmt,omitempty"`
}

// recordValue is the reference reading of trim.txt, written from the statement ("the last completed trim" as a decimal
// Unix time; anything else is a corrupt record and a trim is due): optional sign, decimal digits only, fits int64.
func recordValue(content string) (int64, bool) {
	t := strings.TrimSpace(content)
	neg := false
	if strings.HasPrefix(t, "+") || strings.HasPrefix(t, "-") {
		neg = t[0] == '-'
		t = t[1:]
	}
	if t == "" || len(t) > 40 {
		return 0, false
	}
	var v uint64
	for _, ch := range []byte(t) {
		if ch < '0' || ch > '9' {
			return 0, false
		}
		d := uint64(ch - '0')
		if v > (1<<63)/10+1 {
			return 0, false
		}
		v = v*10 + d
		if v > 1<<63 {
			return 0, false
		}
	}
	if neg {
		if v > 1<<63 {
			return 0, false
		}
		return -int64(v), true
	}
	if v > 1<<63-1 {
		return 0, false
	}
	return int64(v), true
}

func formatRecord(f string, v int64) string {
	if f == "" {
		return strconv.FormatInt(v, 10)
	}
	n := strings.Count(f, "%")
	args := make([]any, 0, n)
	for i := 0; i < n; i++ {
		args = append(args, v-int64(i)*86400*3) // a second value, if the format has one, is an older time
	}
	return fmt.Sprintf(f, args...)
}

// the first six are other spellings of the same decimal number, the rest are corrupt records that begin like one
var recordFmts = []string{"%d\n", "  %d  ", "+%d", "00%d", "%d\r\n", "\t%d", "%d\n%d", "%d # last trim", "%d.5", "%dx", "0x%x", "%d %d", "%d\x00", "%de2", "%d_0", "0o%o", "%d,"}

type histCase struct {
	Ops []op `json:"ops"`
}

var (
	dirOnce sync.Once
	dir     string
	dirErr  error
	hot     = map[byte]bool{}
)

func cacheDir() (string, error) {
	dirOnce.Do(func() {
		dir, dirErr = cachekit.NewDir(cachekit.Scratch(), fmt.Sprintf("c13-%d", os.Getpid()))
		for i := 0; i < nIDs; i++ {
			hot[cachekit.ID(i)[0]] = true
		}
		for _, c := range contNums {
			hot[cachekit.Sum(cachekit.Content(c))[0]] = true
		}
		hot[0x00] = true // foreign files are planted here
		hot[0xff] = true
	})
	return dir, dirErr
}

type frec struct {
	entry   bool // cache entry file (-a / -d)
	exists  bool
	lastUse time.Time
}

type snapFile struct {
	size  int64
	mtime time.Time
	sum   [32]byte
}

func snapshot(d string) map[string]snapFile {
	m := map[string]snapFile{}
	add := func(p string) {
		st, err := os.Lstat(p)
		if err != nil || st.IsDir() {
			return
		}
		b, _ := os.ReadFile(p)
		rel, _ := filepath.Rel(d, p)
		m[rel] = snapFile{st.Size(), st.ModTime(), sha256.Sum256(b)}
	}
	ents, _ := os.ReadDir(d)
	for _, e := range ents {
		p := filepath.Join(d, e.Name())
		if !e.IsDir() {
			add(p)
			continue
		}
		if len(e.Name()) == 2 {
			var b byte
			if _, err := fmt.Sscanf(e.Name(), "%02x", &b); err == nil && !hot[b] {
				continue
			}
		}
		filepath.Walk(p, func(q string, info os.FileInfo, err error) error {
			if err == nil && !info.IsDir() {
				add(q)
			}
			return nil
		})
	}
	return m
}

func diffSnap(a, b map[string]snapFile) string {
	var ds []string
	for k, v := range a {
		w, ok := b[k]
		switch {
		case !ok:
			ds = append(ds, "removed "+k)
		case v.size != w.size || v.sum != w.sum:
			ds = append(ds, "content changed "+k)
		case !v.mtime.Equal(w.mtime):
			ds = append(ds, fmt.Sprintf("mtime changed %s (%v -> %v)", k, v.mtime, w.mtime))
		}
	}
	for k := range b {
		if _, ok := a[k]; !ok {
			ds = append(ds, "created "+k)
		}
	}
	sort.Strings(ds)
	return strings.Join(ds, "; ")
}

func checkHist(h histCase) *vt.Fail {
	d, err := cacheDir()
	if err != nil {
		return vt.Failf("HARNESS-dir", "%v", err)
	}
	cachekit.Clean(d, hot)
	c, err := cache.Open(d)
	if err != nil {
		return vt.Failf("HARNESS-open", "%v", err)
	}
	files := map[string]*frec{} // relative path -> record
	idxRel := func(i int) string { r, _ := filepath.Rel(d, cachekit.IndexPath(d, cachekit.ID(i))); return r }
	datRel := func(cn int) string {
		r, _ := filepath.Rel(d, cachekit.DataPath(d, cachekit.Sum(cachekit.Content(cn))))
		return r
	}
	stored := map[int]int{} // id -> content number
	// last-trim record as the model knows it
	trimState := "missing" // missing | garbage | value
	var lastTrim time.Time
	use := func(rel string) {
		if f := files[rel]; f != nil && f.exists {
			f.lastUse = time.Now()
		}
	}
	var trail []string
	var handles [2]*cache.Cache
	cur := 0
	// doTrim runs Trim through the given handle and holds the outcome against the model.
	doTrim := func(tc *cache.Cache, ctx string) *vt.Fail {
		before := snapshot(d)
		t0 := time.Now()
		var terr error
		if f := vt.Guard("trim-panic", func() *vt.Fail { terr = tc.Trim(); return nil }); f != nil {
			return f
		}
		now := time.Now()
		// the record cannot be read or written when trim.txt is a directory: a trim is due, it has to do its work, and
		// only then may it report that the new record could not be written
		recordIsDir := false
		if st, err := os.Lstat(filepath.Join(d, "trim.txt")); err == nil && st.IsDir() {
			recordIsDir = true
		}
		if terr != nil && !recordIsDir {
			return vt.Failf("trim-error", "%s: Trim: %v", ctx, terr)
		}
		after := snapshot(d)
		// classify dueness
		due, notDue := false, false
		switch trimState {
		case "missing", "garbage":
			due = true
		default:
			dd := now.Sub(lastTrim)
			switch {
			case dd > day+margin || dd < -(time.Hour+margin):
				due = true
			case dd > margin && dd < day-margin:
				notDue = true
			}
		}
		// S2: non-entry files untouched; S1: fresh entry files survive
		for rel, f := range files {
			if !f.exists {
				continue
			}
			a, ok := after[rel]
			b := before[rel]
			if !f.entry {
				if !ok || a.sum != b.sum || a.size != b.size || !a.mtime.Equal(b.mtime) {
					return vt.Failf("non-entry-file-touched", "%s: Trim changed or removed the non-entry file %q", ctx, rel)
				}
				continue
			}
			age := now.Sub(f.lastUse)
			if age < 5*day-margin && !ok {
				return vt.Failf("fresh-entry-removed", "%s: Trim removed %q which was stored or looked up %v ago (< 5 days)", ctx, rel, age.Round(time.Second))
			}
		}
		if tx, ok := before["trim.txt"]; ok && notDue {
			_ = tx
		}
		if notDue {
			if df := diffSnap(before, after); df != "" {
				return vt.Failf("trim-not-due-but-acted", "%s: last trim completed %v ago (< 1 day) but Trim changed the directory: %s", ctx, now.Sub(lastTrim).Round(time.Second), df)
			}
		}
		if due {
			for rel, f := range files {
				if !f.exists || !f.entry {
					continue
				}
				age := t0.Sub(f.lastUse)
				if _, ok := after[rel]; ok && age > 5*day+time.Hour+margin {
					return vt.Failf("stale-entry-kept", "%s: a trim was due but %q, unused for %v (> 5 days + 1 hour), is still there", ctx, rel, age.Round(time.Second))
				}
			}
			b, rerr := os.ReadFile(filepath.Join(d, "trim.txt"))
			v, perr := strconv.ParseInt(strings.TrimSpace(string(b)), 10, 64)
			if recordIsDir {
				trimState = "garbage" // nothing can be recorded; the next trim is due again
			} else {
				if rerr != nil || perr != nil || time.Unix(v, 0).Before(t0.Add(-margin)) || time.Unix(v, 0).After(now.Add(margin)) {
					return vt.Failf("trim-time-not-recorded", "%s: a trim was due but trim.txt holds %q (err %v) instead of the current time", ctx, b, rerr)
				}
				trimState = "value"
				lastTrim = time.Unix(v, 0)
			}
		} else if !notDue {
			// grey zone: learn what happened
			if b, err := os.ReadFile(filepath.Join(d, "trim.txt")); err == nil {
				if v, err := strconv.ParseInt(strings.TrimSpace(string(b)), 10, 64); err == nil {
					trimState, lastTrim = "value", time.Unix(v, 0)
				}
			}
		}
		// sync existence with reality (grey-zone files)
		for rel, f := range files {
			if f.exists {
				if _, ok := after[rel]; !ok {
					f.exists = false
				}
			}
		}
		// S1 (readability): an id whose two files are fresh must still be readable with its bytes
		for i, cn2 := range stored {
			ix, df := files[idxRel(i)], files[datRel(cn2)]
			if ix == nil || df == nil {
				continue
			}
			if now.Sub(ix.lastUse) < 5*day-margin && now.Sub(df.lastUse) < 5*day-margin {
				// reading would refresh mtimes (allowed: a lookup is a use), so model it
				data, _, gerr := tc.GetBytes(cache.ActionID(cachekit.ID(i)))
				if gerr != nil || !bytes.Equal(data, cachekit.Content(cn2)) {
					return vt.Failf("fresh-entry-unreadable", "%s: id%d was stored or looked up within five days but GetBytes after Trim fails: %v", ctx, i, gerr)
				}
				use(idxRel(i))
				use(datRel(cn2))
			}
		}
		return nil
	}
	for step, o := range h.Ops {
		if o.ID < 0 || o.ID >= nIDs || o.C < 0 || o.C >= nCont {
			continue
		}
		id := cache.ActionID(cachekit.ID(o.ID))
		cn := contNums[o.C]
		content := cachekit.Content(cn)
		trail = append(trail, fmt.Sprintf("%d:%s", step, descr(o)))
		ctx := strings.Join(trail, " ")
		switch o.Op {
		case "switch":
			// continue through the other of two Cache handles on the same directory (another user of the cache)
			handles[cur] = c
			cur ^= 1
			if handles[cur] == nil {
				if handles[cur], err = cache.Open(d); err != nil {
					return vt.Failf("HARNESS-open", "%v", err)
				}
			}
			c = handles[cur]
		case "put":
			nested := false
			if o.TrimAt > 0 && o.TrimAt <= len(content) {
				// the other user's handle: opened for the occasion, like another process would
				oc, oerr := cache.Open(d)
				if oerr != nil {
					return vt.Failf("HARNESS-open", "%v", oerr)
				}
				var tf *vt.Fail
				src := &cachekit.HookSrc{Data: content, Pass: 2, At: o.TrimAt - 1, Fn: func() { tf = doTrim(oc, ctx+" [trim by another user]") }}
				if _, _, err := c.Put(id, src); err != nil {
					return vt.Failf("put-failed", "%s: %v", ctx, err)
				}
				if tf != nil {
					return tf
				}
				nested = src.Fired
			} else if err := c.PutBytes(id, content); err != nil {
				return vt.Failf("put-failed", "%s: %v", ctx, err)
			}
			if nested {
				// what this Put stored is not stale, whatever the trim next to it found: it must be readable now
				data, _, gerr := c.GetBytes(id)
				if gerr != nil || !bytes.Equal(data, content) {
					return vt.Failf("entry-lost-to-concurrent-trim", "%s: another user trimmed the cache while this Put had copied %d bytes; Put returned nil but GetBytes fails: %v", ctx, o.TrimAt-1, gerr)
				}
				if file, _, gerr := c.GetFile(id); gerr != nil {
					return vt.Failf("entry-lost-to-concurrent-trim", "%s: another user trimmed the cache while this Put had copied %d bytes; Put returned nil but GetFile fails: %v", ctx, o.TrimAt-1, gerr)
				} else if fb, _ := os.ReadFile(file); !bytes.Equal(fb, content) {
					return vt.Failf("entry-lost-to-concurrent-trim", "%s: after a trim next to this Put GetFile names a file with other content", ctx)
				}
			}
			now := time.Now()
			files[idxRel(o.ID)] = &frec{entry: true, exists: true, lastUse: now}
			if f := files[datRel(cn)]; f != nil && f.exists {
				f.lastUse = now
			} else {
				files[datRel(cn)] = &frec{entry: true, exists: true, lastUse: now}
			}
			stored[o.ID] = cn
		case "get", "getbytes", "getfile":
			ix := files[idxRel(o.ID)]
			var lerr error
			var data []byte
			var file string
			if f := vt.Guard("lookup-panic", func() *vt.Fail {
				switch o.Op {
				case "get":
					_, lerr = c.Get(id)
				case "getbytes":
					data, _, lerr = c.GetBytes(id)
				default:
					file, _, lerr = c.GetFile(id)
					if lerr == nil {
						data, _ = os.ReadFile(file)
					}
				}
				return nil
			}); f != nil {
				return f
			}
			if ix != nil && ix.exists {
				use(idxRel(o.ID))
				if o.Op != "get" {
					use(datRel(stored[o.ID]))
					df := files[datRel(stored[o.ID])]
					if df != nil && df.exists {
						if lerr != nil || !bytes.Equal(data, cachekit.Content(stored[o.ID])) {
							return vt.Failf("entry-unreadable", "%s: both files of id%d are present in the model but %s failed: %v", ctx, o.ID, o.Op, lerr)
						}
					}
				} else if lerr != nil {
					return vt.Failf("entry-unreadable", "%s: index of id%d present but Get failed: %v", ctx, o.ID, lerr)
				}
			}
		case "outputfile":
			c.OutputFile(cachekit.Sum(content))
			use(datRel(cn))
		case "advance":
			dt := time.Duration(o.Sec) * time.Second
			for rel, f := range files {
				f.lastUse = f.lastUse.Add(-dt)
				if f.exists {
					p := filepath.Join(d, rel)
					if st, err := os.Stat(p); err == nil {
						os.Chtimes(p, st.ModTime().Add(-dt), st.ModTime().Add(-dt))
					}
				}
			}
			// (time passes for the directories too: a sub-directory's own time stamp says when an entry was last created or
			// removed in it, and it ages like everything else)
			if subs, err := os.ReadDir(d); err == nil {
				for _, e := range subs {
					if e.IsDir() && len(e.Name()) == 2 {
						p := filepath.Join(d, e.Name())
						if st, err := os.Stat(p); err == nil {
							os.Chtimes(p, st.ModTime().Add(-dt), st.ModTime().Add(-dt))
						}
					}
				}
			}
			tp := filepath.Join(d, "trim.txt")
			if st, err := os.Stat(tp); err == nil {
				if trimState == "value" {
					lastTrim = lastTrim.Add(-dt)
					b, _ := os.ReadFile(tp)
					if v, err := strconv.ParseInt(strings.TrimSpace(string(b)), 10, 64); err == nil {
						os.WriteFile(tp, []byte(strconv.FormatInt(v-o.Sec, 10)), 0o666)
					}
				}
				os.Chtimes(tp, st.ModTime().Add(-dt), st.ModTime().Add(-dt))
			}
		case "plant":
			if !safePlantName(o.Name) {
				continue
			}
			p := filepath.Join(d, o.Name)
			os.MkdirAll(filepath.Dir(p), 0o777)
			if err := os.WriteFile(p, []byte("foreign "+o.Name), 0o666); err != nil {
				continue
			}
			mt := time.Now().Add(-time.Duration(o.Sec) * time.Second)
			os.Chtimes(p, mt, mt)
			files[o.Name] = &frec{entry: false, exists: true, lastUse: mt}
		case "linkentry":
			// the index entry of an id (or its output file, C odd) is moved elsewhere and linked back - a cache whose files
			// were relocated. A lookup refreshes what the link leads to, and that is the time Trim has to judge by.
			if _, ok := stored[o.ID]; !ok {
				continue
			}
			rel := idxRel(o.ID)
			if o.C%2 == 1 {
				rel = datRel(stored[o.ID])
			}
			p := filepath.Join(d, rel)
			if st, err := os.Lstat(p); err != nil || st.Mode()&os.ModeSymlink != 0 {
				continue
			}
			to := filepath.Join(d, "relocated", filepath.Base(rel))
			os.MkdirAll(filepath.Dir(to), 0o777)
			if os.Rename(p, to) != nil {
				continue
			}
			if os.Symlink(to, p) != nil {
				os.Rename(to, p)
				continue
			}
		case "plantdir":
			// something in the way that Trim cannot remove: a non-empty directory whose name looks like a stale entry, in
			// the sub-directory scanned first. Trim leaves it alone (it is no entry) - and goes on with everything else.
			p := filepath.Join(d, "00", strings.Repeat("0", 64)+"-d")
			os.MkdirAll(p, 0o777)
			inner := filepath.Join(p, "keep")
			if err := os.WriteFile(inner, []byte("not a cache entry"), 0o666); err != nil {
				continue
			}
			mt := time.Now().Add(-40 * day)
			os.Chtimes(inner, mt, mt)
			os.Chtimes(p, mt, mt)
			rel, _ := filepath.Rel(d, inner)
			files[rel] = &frec{entry: false, exists: true, lastUse: mt}
		case "trimtxt":
			tp := filepath.Join(d, "trim.txt")
			switch {
			case o.Txt == "missing":
				os.RemoveAll(tp)
				trimState = "missing"
			case o.Txt == "DIR":
				os.RemoveAll(tp)
				os.MkdirAll(filepath.Join(tp, "inner"), 0o777)
				trimState = "garbage"
			case o.Txt != "":
				os.RemoveAll(tp)
				os.WriteFile(tp, []byte(o.Txt), 0o666)
				trimState = "garbage"
			default:
				v := time.Now().Add(-time.Duration(o.Sec) * time.Second)
				content := formatRecord(o.Fmt, v.Unix())
				os.RemoveAll(tp)
				os.WriteFile(tp, []byte(content), 0o666)
				if rv, ok := recordValue(content); ok {
					trimState = "value"
					lastTrim = time.Unix(rv, 0)
				} else {
					trimState = "garbage"
				}
			}
		case "trim":
			if f := doTrim(c, ctx); f != nil {
				return f
			}
		}
	}
	return nil
}

func descr(o op) string {
	switch o.Op {
	case "put":
		if o.TrimAt > 0 {
			return fmt.Sprintf("put(id%d,c%d,another user trims at offset %d)", o.ID, o.C, o.TrimAt-1)
		}
		return fmt.Sprintf("put(id%d,c%d)", o.ID, o.C)
	case "get", "getbytes", "getfile":
		return fmt.Sprintf("%s(id%d)", o.Op, o.ID)
	case "outputfile":
		return fmt.Sprintf("outputfile(c%d)", o.C)
	case "linkentry":
		return fmt.Sprintf("linkentry(id%d,%s file moved away and linked back)", o.ID, map[int]string{0: "index", 1: "output"}[o.C%2])
	case "plantdir":
		return "plant(non-empty directory named like a stale entry)"
	case "advance":
		return fmt.Sprintf("advance(%v)", time.Duration(o.Sec)*time.Second)
	case "plant":
		return fmt.Sprintf("plant(%s,age %v)", o.Name, time.Duration(o.Sec)*time.Second)
	case "trimtxt":
		if o.Txt != "" {
			return fmt.Sprintf("trimtxt(%q)", o.Txt)
		}
		if o.Fmt != "" {
			return fmt.Sprintf("trimtxt(now-%v written as %q)", time.Duration(o.Sec)*time.Second, o.Fmt)
		}
		return fmt.Sprintf("trimtxt(now-%v)", time.Duration(o.Sec)*time.Second)
	}
	return o.Op
}

func safePlantName(n string) bool {
	if n == "" || strings.Contains(n, "..") || filepath.IsAbs(n) || strings.HasSuffix(n, "-a") || strings.HasSuffix(n, "-d") || n == "trim.txt" {
		return false
	}
	return true
}

// ---- generator ----

const (
	mn = 60
	hr = 3600
	dy = 86400
)

var advances = []int64{5 * mn, 59 * mn, 61 * mn, 3 * hr, 23 * hr, 25 * hr, 4*dy + 23*hr, 5*dy - 5*mn, 5*dy + 5*mn, 5*dy + hr - 5*mn, 5*dy + hr + 5*mn, 6 * dy, 30 * dy, 4 * dy, 2 * dy}
var plantNames = []string{"README", "fuzz/corpus/x", "fuzz/a-d.txt", "00/foreign", "00/abc-a.bak", "ff/x.tmp", "ff/0123-dx", "log.txt", "trim.txt.bak"}
var trimTxts = []string{"", "x", "12x", "99999999999999999999999", "-", " \n", "DIR"}

// genSkeleton builds a history along the life cycle the statement talks about: store, use within / beyond the
// mtime granularity, let time pass up to around the five-day limit, store fresh entries, trim when due, trim again.
func genSkeleton(t *rapid.T) histCase {
	var h histCase
	add := func(o op) { h.Ops = append(h.Ops, o) }
	if rapid.IntRange(0, 3).Draw(t, "pretrim") == 0 {
		add(op{Op: "trim"}) // a first trim so that the next one is only due after a day
	}
	nput := rapid.IntRange(1, 4).Draw(t, "nput")
	for i := 0; i < nput; i++ {
		add(op{Op: "put", ID: rapid.IntRange(0, nIDs-1).Draw(t, "id"), C: rapid.IntRange(0, nCont-1).Draw(t, "c")})
	}
	if rapid.IntRange(0, 2).Draw(t, "plant") == 0 {
		add(op{Op: "plant", Name: rapid.SampledFrom(plantNames).Draw(t, "pname"), Sec: rapid.SampledFrom([]int64{0, 6 * dy, 40 * dy}).Draw(t, "page")})
	}
	for round, nr := 0, rapid.IntRange(1, 3).Draw(t, "rounds"); round < nr; round++ {
		add(op{Op: "advance", Sec: rapid.SampledFrom([]int64{5 * mn, 59 * mn, 61 * mn, 3 * hr, 23 * hr, 25 * hr}).Draw(t, "small")})
		for i, nl := 0, rapid.IntRange(0, 3).Draw(t, "nlook"); i < nl; i++ {
			add(op{Op: rapid.SampledFrom([]string{"get", "getbytes", "getfile", "outputfile"}).Draw(t, "look"), ID: rapid.IntRange(0, nIDs-1).Draw(t, "id"), C: rapid.IntRange(0, nCont-1).Draw(t, "c")})
		}
	}
	if rapid.IntRange(0, 5).Draw(t, "obstacle") == 2 {
		add(op{Op: "plantdir"})
	}
	add(op{Op: "advance", Sec: rapid.SampledFrom([]int64{4*dy + 23*hr, 5*dy - 5*mn, 5*dy + 5*mn, 5*dy + hr - 5*mn, 5*dy + hr + 5*mn, 6 * dy, 4 * dy}).Draw(t, "big")})
	for i, nf := 0, rapid.IntRange(0, 2).Draw(t, "nfresh"); i < nf; i++ {
		o := op{Op: "put", ID: rapid.IntRange(0, nIDs-1).Draw(t, "id"), C: rapid.IntRange(0, nCont-1).Draw(t, "c")}
		if rapid.IntRange(0, 3).Draw(t, "trimnext") == 2 {
			// another user's (due) trim while this fresh entry is being stored
			o.TrimAt = 1 + rapid.SampledFrom([]int{0, 0, 1, 70, 138}).Draw(t, "trimat")
		}
		add(o)
	}
	if rapid.IntRange(0, 4).Draw(t, "record") == 0 {
		o := op{Op: "trimtxt"}
		switch rapid.IntRange(0, 3).Draw(t, "tk") {
		case 0:
			o.Txt = "missing"
		case 1:
			o.Txt = rapid.SampledFrom(trimTxts[1:]).Draw(t, "ttxt")
		default:
			o.Sec = rapid.SampledFrom([]int64{10 * mn, 23 * hr, 25 * hr, -30 * mn, -2 * hr, -3 * dy}).Draw(t, "toff")
			if rapid.Bool().Draw(t, "spelled") {
				o.Fmt = rapid.SampledFrom(recordFmts).Draw(t, "rfmt")
			}
		}
		add(o)
	}
	other := rapid.IntRange(0, 2).Draw(t, "otherhandle") == 1
	if other {
		add(op{Op: "switch"}) // the trim is done by another user of the directory
	}
	add(op{Op: "trim"})
	if other && rapid.Bool().Draw(t, "switchback") {
		add(op{Op: "switch"})
		if rapid.Bool().Draw(t, "reput") {
			add(op{Op: "put", ID: rapid.IntRange(0, nIDs-1).Draw(t, "id"), C: rapid.IntRange(0, nCont-1).Draw(t, "c")})
		}
	}
	for i, nl := 0, rapid.IntRange(0, 2).Draw(t, "nlook2"); i < nl; i++ {
		add(op{Op: rapid.SampledFrom([]string{"get", "getbytes", "getfile"}).Draw(t, "look"), ID: rapid.IntRange(0, nIDs-1).Draw(t, "id")})
	}
	add(op{Op: "advance", Sec: rapid.SampledFrom([]int64{23 * hr, 25 * hr, 2 * dy, 5*dy + 2*hr}).Draw(t, "after")})
	add(op{Op: "trim"})
	return h
}

func genHist(t *rapid.T) histCase {
	if rapid.Bool().Draw(t, "skeleton") {
		return genSkeleton(t)
	}
	n := rapid.IntRange(2, 28).Draw(t, "nops")
	var h histCase
	for i := 0; i < n; i++ {
		o := op{ID: rapid.IntRange(0, nIDs-1).Draw(t, "id"), C: rapid.IntRange(0, nCont-1).Draw(t, "c")}
		switch rapid.IntRange(0, 16).Draw(t, "op") {
		case 16:
			o.Op = "switch"
		case 0, 1, 2:
			o.Op = "put"
			if rapid.IntRange(0, 5).Draw(t, "trimnext") == 4 {
				o.TrimAt = 1 + rapid.SampledFrom([]int{0, 0, 1, 70, 138}).Draw(t, "trimat")
			}
		case 3, 4, 5, 6:
			o.Op = "advance"
			o.Sec = rapid.SampledFrom(advances).Draw(t, "adv")
		case 7, 8, 9:
			o.Op = "trim"
		case 10:
			o.Op = "get"
		case 11:
			o.Op = "getbytes"
		case 12:
			o.Op = "getfile"
		case 13:
			o.Op = "outputfile"
		case 14:
			if rapid.IntRange(0, 3).Draw(t, "plantdir") == 1 {
				o.Op = "plantdir"
				break
			}
			if rapid.IntRange(0, 2).Draw(t, "linkentry") == 1 {
				o.Op = "linkentry"
				break
			}
			o.Op = "plant"
			o.Name = rapid.SampledFrom(plantNames).Draw(t, "pname")
			o.Sec = rapid.SampledFrom([]int64{0, hr, 2 * dy, 6 * dy, 40 * dy}).Draw(t, "page")
		case 15:
			o.Op = "trimtxt"
			switch rapid.IntRange(0, 5).Draw(t, "tk") {
			case 0:
				o.Txt = "missing"
			case 1:
				o.Txt = rapid.SampledFrom(trimTxts[1:]).Draw(t, "ttxt")
			default:
				o.Sec = rapid.SampledFrom([]int64{10 * mn, 23 * hr, 25 * hr, 10 * dy, -30 * mn, -2 * hr, -3 * dy, 1 * hr}).Draw(t, "toff")
				if rapid.IntRange(0, 2).Draw(t, "spelled") == 1 {
					o.Fmt = rapid.SampledFrom(recordFmts).Draw(t, "rfmt")
				}
			}
		}
		h.Ops = append(h.Ops, o)
	}
	return h
}

func metaHist(h histCase) vt.Meta {
	// approximate classification by replaying ages symbolically
	type st struct{ age int64 }
	ent := map[string]*st{}
	var sinceTrim int64 = -1 // -1: due (missing)
	sawBoth, lookupBetween := false, false
	lookups := map[int]bool{}
	var cl []string
	trims, dueTrims := 0, 0
	for _, o := range h.Ops {
		switch o.Op {
		case "put":
			ent[fmt.Sprint("i", o.ID)] = &st{}
			ent[fmt.Sprint("d", o.C)] = &st{}
		case "get", "getbytes", "getfile":
			if e := ent[fmt.Sprint("i", o.ID)]; e != nil {
				e.age = 0
				lookups[o.ID] = true
			}
		case "advance":
			for _, e := range ent {
				e.age += o.Sec
			}
			if sinceTrim >= 0 {
				sinceTrim += o.Sec
			}
		case "trimtxt":
			if _, ok := recordValue(formatRecord(o.Fmt, 1790000000)); o.Txt != "" || !ok {
				sinceTrim = -1
				if o.Txt == "" {
					cl = append(cl, "record-begins-like-a-time-but-is-corrupt")
				}
			} else {
				if o.Fmt != "" {
					cl = append(cl, "record-in-another-spelling")
				}
				sinceTrim = o.Sec
				if o.Sec < -hr {
					sinceTrim = -1
				}
			}
		case "trim":
			trims++
			if sinceTrim < 0 || sinceTrim > dy {
				dueTrims++
				stale, fresh := false, false
				for k, e := range ent {
					if e.age > 5*dy+hr {
						stale = true
						delete(ent, k)
					} else {
						fresh = true
					}
				}
				if stale && fresh {
					sawBoth = true
				}
				if len(lookups) > 0 {
					lookupBetween = true
				}
				sinceTrim = 0
			}
		}
	}
	cl = append(cl, fmt.Sprintf("due-trims=%d", min(dueTrims, 3)))
	if trims > dueTrims {
		cl = append(cl, "has-not-due-trim")
	}
	if sawBoth {
		cl = append(cl, "due-trim-sees-stale-and-fresh")
	}
	return vt.Meta{NonTrivial: sawBoth && lookupBetween, Classes: cl}
}

func TestHistories(t *testing.T) {
	vt.Run(t, rec, vt.Prop[histCase]{Kind: "history", Gen: genHist, Check: checkHist, Meta: metaHist, Reduce: func(h histCase) []histCase {
		var out []histCase
		for _, ops := range vt.DropOne(h.Ops) {
			out = append(out, histCase{Ops: ops})
		}
		return out
	}}, vt.N(700, 20000))
}

// Deterministic scenarios from the statement.
var scenarios = []histCase{
	// re-storing existing content keeps the entry alive
	{Ops: []op{{Op: "put", ID: 0, C: 0}, {Op: "advance", Sec: 6 * dy}, {Op: "put", ID: 1, C: 0}, {Op: "trim"}, {Op: "getbytes", ID: 1}}},
	// lookup inside the mtime granularity keeps the entry for five more days
	{Ops: []op{{Op: "put", ID: 0, C: 1}, {Op: "advance", Sec: 59 * mn}, {Op: "getbytes", ID: 0}, {Op: "advance", Sec: 5*dy - 5*mn}, {Op: "trim"}}},
	// not due: nothing changes
	{Ops: []op{{Op: "put", ID: 0, C: 1}, {Op: "trim"}, {Op: "advance", Sec: 23 * hr}, {Op: "put", ID: 1, C: 2}, {Op: "advance", Sec: 30 * mn}, {Op: "plant", Name: "README", Sec: 40 * dy}, {Op: "trim"}}},
	// stale entries are removed when due, fresh survive, non-entries untouched
	{Ops: []op{{Op: "put", ID: 0, C: 1}, {Op: "plant", Name: "00/foreign", Sec: 40 * dy}, {Op: "plant", Name: "fuzz/corpus/x", Sec: 40 * dy}, {Op: "advance", Sec: 6 * dy}, {Op: "put", ID: 2, C: 2}, {Op: "trim"}}},
	// future / corrupt records
	{Ops: []op{{Op: "put", ID: 0, C: 1}, {Op: "advance", Sec: 6 * dy}, {Op: "trimtxt", Sec: -3 * dy}, {Op: "trim"}}},
	{Ops: []op{{Op: "put", ID: 0, C: 1}, {Op: "advance", Sec: 6 * dy}, {Op: "trimtxt", Txt: "12x"}, {Op: "trim"}}},
	// a corrupt record that begins with a recent time: a trim is due; a recent time in another decimal spelling: not due
	{Ops: []op{{Op: "put", ID: 0, C: 1}, {Op: "advance", Sec: 6 * dy}, {Op: "trimtxt", Sec: hr, Fmt: "%d\n%d"}, {Op: "trim"}}},
	{Ops: []op{{Op: "put", ID: 0, C: 1}, {Op: "advance", Sec: 6 * dy}, {Op: "trimtxt", Sec: hr, Fmt: "%d.5"}, {Op: "trim"}}},
	{Ops: []op{{Op: "put", ID: 0, C: 1}, {Op: "advance", Sec: 6 * dy}, {Op: "trimtxt", Sec: hr, Fmt: "00%d"}, {Op: "trim"}}},
	// entry files that are links: stale by what they lead to, fresh after a lookup
	{Ops: []op{{Op: "put", ID: 0, C: 1}, {Op: "linkentry", ID: 0, C: 0}, {Op: "advance", Sec: 6 * dy}, {Op: "trim"}}},
	{Ops: []op{{Op: "put", ID: 0, C: 1}, {Op: "linkentry", ID: 0, C: 1}, {Op: "advance", Sec: 6 * dy}, {Op: "getbytes", ID: 0}, {Op: "trim"}, {Op: "getbytes", ID: 0}}},
	// the record is a directory: the trim is due and does its work although it can neither read nor write the record
	{Ops: []op{{Op: "put", ID: 0, C: 1}, {Op: "advance", Sec: 6 * dy}, {Op: "trimtxt", Txt: "DIR"}, {Op: "trim"}}},
	// an obstacle Trim cannot remove in the first sub-directory: the stale entry elsewhere still goes
	{Ops: []op{{Op: "put", ID: 0, C: 1}, {Op: "plantdir"}, {Op: "advance", Sec: 6 * dy}, {Op: "trim"}}},
	// another user's trim (due: no record yet) just after this Put has created its empty output file, and part-way through
	{Ops: []op{{Op: "put", ID: 0, C: 1, TrimAt: 1}, {Op: "getfile", ID: 0}}},
	{Ops: []op{{Op: "put", ID: 1, C: 2}, {Op: "advance", Sec: 6 * dy}, {Op: "put", ID: 0, C: 1, TrimAt: 71}, {Op: "getbytes", ID: 0}, {Op: "get", ID: 1}}},
	{Ops: []op{{Op: "put", ID: 0, C: 1}, {Op: "advance", Sec: 4 * dy}, {Op: "get", ID: 0}, {Op: "advance", Sec: 4 * dy}, {Op: "trim"}, {Op: "get", ID: 0}}},
}

func TestScenarios(t *testing.T) {
	for _, s := range scenarios {
		rec.Eval(1)
		vt.CheckOne(rec, "history", s, checkHist)
	}
	rec.NonTrivialDistinct(int64(len(scenarios)))
}

var replayers = vt.Replayer{"history": vt.Decode(checkHist)}

func TestReplay(t *testing.T) { vt.Replay(t, rec, replayers) }
