package c09

import (
	"fmt"
	"math"
	"sort"
	"testing"

	"pgregory.net/rapid"

	par "verif/gen/parx"
	"verif/sched"
	"verif/vt"
)

var rec = vt.New("C09")

func TestMain(m *testing.M) { vt.Main(m, rec) }

type workCase struct {
	N       int     `json:"n"`
	Initial []int   `json:"initial"`
	Succ    [][]int `json:"succ"`            // successors added while processing item i
	Yields  []int   `json:"yields"`          // explicit yields inside f(i), before the Adds
	After   []int   `json:"after,omitempty"` // explicit yields inside f(i) after its Adds (f is still in progress then)
	// WaitFor[i]: after its Adds, f(i) blocks until each listed item has started (calls of f that depend on other items
	// being picked up). Honoured only when n >= number of reachable items and every listed item is an initial item or a
	// successor of i (then a correct Work always has an idle runner for an unstarted item, so the wait ends).
	WaitFor [][]int `json:"wait_for,omitempty"`
	// Redo[i] = m > 0: while processing item i, f calls Do(m, ...) on the same Work once more (a misuse the package
	// refuses with a panic, recovered here): the refused call must leave the run that is in progress alone.
	Redo []int `json:"redo,omitempty"`
	// PanicItem = i+1 > 0: f panics when it is called for item i (a leaf) on the goroutine that called Do, and the caller
	// recovers from the panic of Do. The runners Do started are not affected by that: between them they still call f
	// exactly once for every other item (they then wait for a runner that will never come back, which is the unchanged
	// package's way of ending such a run and is accepted).
	PanicItem int `json:"panic_item,omitempty"`
	// Others: this Work is not the only one of the process: before it, another Work with two items is run to the end with
	// two runners; next to it a third Work gets two items of its own before Do and is run after it. Each Work must see
	// exactly its own items.
	Others bool   `json:"others,omitempty"`
	Mode   string `json:"mode"` // seq | pct
	// Items optionally gives the value used for item i: "" or "int" = the int i, "nil" = a nil item,
	// "string" = a string, "struct" = a comparable struct (all valid map keys).
	Items   []string `json:"items,omitempty"`
	Sched   []uint8  `json:"sched,omitempty"`
	Data    []uint8  `json:"data,omitempty"`
	Prio    []uint8  `json:"prio,omitempty"`
	Changes []int    `json:"changes,omitempty"`
}

type outcome struct {
	fail       *vt.Fail
	wokenByAdd bool
	steps      int
	stuck      bool
}

func (c workCase) strategy() sched.Strategy {
	if c.Mode == "pct" {
		return &sched.PCT{Prio: c.Prio, Changes: c.Changes, Data_: c.Data}
	}
	return &sched.Seq{Sched: c.Sched, Data_: c.Data}
}

func valid(c workCase) bool {
	if c.N < 1 || c.N > 12 || len(c.Succ) == 0 || len(c.Yields) != len(c.Succ) {
		return false
	}
	nils := 0
	for _, k := range c.Items {
		if k == "nil" {
			nils++
		}
	}
	if nils > 1 || len(c.Items) > len(c.Succ) {
		return false
	}
	if c.PanicItem != 0 && (c.PanicItem < 1 || c.PanicItem > len(c.Succ) || len(c.Succ[c.PanicItem-1]) != 0 || c.N < 2) {
		return false
	}
	for i, k := range c.Items {
		if k != "nan" {
			continue
		}
		// not equal to itself, so never recognised as a duplicate: keep "exactly once" meaningful by adding it once only
		adds := 0
		for _, x := range c.Initial {
			if x == i {
				adds++
			}
		}
		for _, ss := range c.Succ {
			for _, x := range ss {
				if x == i {
					adds++
				}
			}
		}
		if adds != 1 || len(c.Succ[i]) != 0 {
			return false
		}
	}
	for _, i := range c.Initial {
		if i < 0 || i >= len(c.Succ) {
			return false
		}
	}
	for _, ss := range c.Succ {
		for _, s := range ss {
			if s < 0 || s >= len(c.Succ) {
				return false
			}
		}
	}
	return true
}

type itemKey struct{ N int }

func itemVal(c workCase, i int) any {
	if i < len(c.Items) {
		switch c.Items[i] {
		case "nil":
			return nil
		case "string":
			return fmt.Sprintf("item-%d", i)
		case "struct":
			return itemKey{i}
		case "nan":
			// an item that is not equal to itself (a measurement whose ratio was 0/0): every Add of it adds a distinct item
			return nanKey{N: i, F: math.NaN()}
		}
	}
	return i
}

type nanKey struct {
	N int
	F float64
}

func itemIndex(c workCase, x any) int {
	switch v := x.(type) {
	case nil:
		for i, k := range c.Items {
			if k == "nil" {
				return i
			}
		}
		return -1
	case int:
		return v
	case string:
		var i int
		fmt.Sscanf(v, "item-%d", &i)
		return i
	case itemKey:
		return v.N
	case nanKey:
		return v.N
	}
	return -1
}

// run executes one controlled execution of par.Work and judges it.
func run(c workCase, strat sched.Strategy, trace bool) outcome {
	count := map[int]int{}
	inflight, maxInflight := 0, 0
	doReturned := false
	var bad *vt.Fail
	wokenByAdd := false
	closure := map[int]bool{}
	var walk func(i int)
	walk = func(i int) {
		if closure[i] {
			return
		}
		closure[i] = true
		for _, s := range c.Succ[i] {
			walk(s)
		}
	}
	for _, i := range c.Initial {
		walk(i)
	}
	var startWaiters []*sched.Task
	// calls that wait hold a runner each; everything they wait for has been queued before they start waiting, so as long
	// as one runner is left over a correct Work gets it started
	nWaiting := 0
	for i, ws := range c.WaitFor {
		if len(ws) > 0 && closure[i] {
			nWaiting++
		}
	}
	waitsOK := c.N >= len(closure) || c.N > nWaiting
	for i, ws := range c.WaitFor {
		for _, j := range ws {
			ok := i < len(c.Succ) && j >= 0 && j < len(c.Succ) && j != i
			if ok {
				ok = false
				for _, x := range c.Initial {
					ok = ok || x == j
				}
				for _, x := range c.Succ[i] {
					ok = ok || x == j
				}
			}
			if !ok {
				waitsOK = false
			}
		}
	}
	mainPanicked := false
	res := sched.Run(strat, sched.Options{MaxSteps: 20000, KeepTrace: trace}, func() {
		mainTask := sched.Cur()
		defer func() {
			if r := recover(); r != nil {
				if r != "planned failure of f" {
					panic(r)
				}
				mainPanicked = true
			}
		}()
		var w, side par.Work
		sideSeen := map[int]int{}
		if c.Others {
			var first par.Work
			first.Add(-101)
			first.Add(-102)
			first.Do(2, func(x any) {
				if v, ok := x.(int); !ok || (v != -101 && v != -102) {
					if bad == nil {
						bad = vt.Failf("foreign-item", "a Work that was given the items -101 and -102 called f with %#v", x)
					}
				}
			})
		}
		for k, i := range c.Initial {
			if c.Others && k == 1 {
				side.Add(-201)
			}
			w.Add(itemVal(c, i))
		}
		if c.Others {
			side.Add(-202)
			side.Add(-201) // (a duplicate: ignored)
		}
		w.Do(c.N, func(x any) {
			i := itemIndex(c, x)
			if i < 0 || i >= len(c.Succ) {
				if bad == nil {
					bad = vt.Failf("unknown-item", "f called with %#v which was never added", x)
				}
				return
			}
			if doReturned && bad == nil {
				bad = vt.Failf("f-called-after-do-returned", "f(%d) called after Do returned", i)
			}
			count[i]++
			for _, t := range startWaiters {
				sched.Wake(t)
			}
			startWaiters = nil
			if c.PanicItem == i+1 && sched.Cur() == mainTask {
				panic("planned failure of f")
			}
			inflight++
			if inflight > maxInflight {
				maxInflight = inflight
			}
			for k := 0; k < c.Yields[i]; k++ {
				sched.Yield()
			}
			for _, s := range c.Succ[i] {
				waiting := sched.BlockedOn("Cond.Wait")
				fresh := count[s] == 0
				w.Add(itemVal(c, s))
				if waiting > 0 && fresh {
					wokenByAdd = true
				}
			}
			if i < len(c.Redo) && c.Redo[i] > 0 && c.Redo[i] <= 12 {
				refused := false
				func() {
					defer func() {
						if recover() != nil {
							refused = true
						}
					}()
					w.Do(c.Redo[i], func(any) {})
				}()
				if !refused && bad == nil {
					bad = vt.Failf("second-do-not-refused", "a second Do(%d) on a Work whose Do is running returned instead of being refused", c.Redo[i])
				}
			}
			if i < len(c.After) {
				for k := 0; k < c.After[i]; k++ {
					sched.Yield()
				}
			}
			if waitsOK && i < len(c.WaitFor) {
				for _, j := range c.WaitFor[i] {
					for count[j] == 0 {
						startWaiters = append(startWaiters, sched.Cur())
						sched.Block("wait until another item has started")
					}
				}
			}
			inflight--
		})
		doReturned = true
		if c.Others {
			side.Do(1, func(x any) {
				v, _ := x.(int)
				sideSeen[v]++
			})
			if (len(sideSeen) != 2 || sideSeen[-201] != 1 || sideSeen[-202] != 1) && bad == nil {
				bad = vt.Failf("foreign-item", "a second Work that was given the items -201 and -202 before the first one ran called f for %v", sideSeen)
			}
		}
		if inflight != 0 && bad == nil {
			bad = vt.Failf("do-returned-early", "Do returned with %d calls of f still in progress", inflight)
		}
		var missing []int
		for i := range closure {
			if count[i] != 1 {
				missing = append(missing, i)
			}
		}
		sort.Ints(missing)
		if len(missing) > 0 && bad == nil {
			bad = vt.Failf("not-exactly-once-at-return", "when Do returned, items %v had run %v times (want exactly once each)", missing, counts(count, missing))
		}
	})
	o := outcome{steps: res.Steps, wokenByAdd: wokenByAdd}
	ctx := ""
	if trace {
		tr := res.Trace
		if len(tr) > 80 {
			tr = append([]string{fmt.Sprintf("... %d earlier steps ...", len(tr)-80)}, tr[len(tr)-80:]...)
		}
		ctx = fmt.Sprintf("\ntrace: %v", tr)
	}
	if mainPanicked && !res.Stuck && len(res.Panics) == 0 && !res.Overrun {
		// f failed on the caller's goroutine: what counts is that the other runners got through everything else
		var missing []int
		for i := range closure {
			if count[i] != 1 {
				missing = append(missing, i)
			}
		}
		sort.Ints(missing)
		if bad != nil {
			bad.Msg += ctx
			o.fail = bad
		} else if len(missing) > 0 {
			o.fail = vt.Failf("items-not-run-after-panic-of-f", "f panicked for item %d on the goroutine that called Do (recovered there); the %d runners Do had started should still have called f once for every other item, but items %v ran %v times; blocked tasks: %v%s", c.PanicItem-1, c.N-1, missing, counts(count, missing), res.Blocked, ctx)
		}
		return o
	}
	switch {
	case res.Stuck:
		o.stuck = true
	case len(res.Panics) > 0:
		o.fail = vt.Failf("panic", "%s%s", res.Panics[0], ctx)
	case res.Deadlock:
		o.fail = vt.Failf("deadlock", "no task can run but not all finished (Do returned: %v): %v%s", doReturned, res.Blocked, ctx)
	case res.Overrun:
		o.fail = vt.Failf("no-termination", "still running after %d steps: %v%s", res.Steps, res.Blocked, ctx)
	case bad != nil:
		bad.Msg += ctx
		o.fail = bad
	case maxInflight > c.N:
		o.fail = vt.Failf("too-many-in-flight", "%d calls of f in progress at once, n=%d%s", maxInflight, c.N, ctx)
	}
	if o.fail == nil {
		var ids []int
		for i := range count {
			ids = append(ids, i)
		}
		sort.Ints(ids)
		for _, i := range ids {
			if count[i] != 1 || !closure[i] {
				o.fail = vt.Failf("not-exactly-once", "item %d ran %d times (reachable: %v)%s", i, count[i], closure[i], ctx)
				break
			}
		}
	}
	return o
}

func counts(m map[int]int, ids []int) []int {
	var out []int
	for _, i := range ids {
		out = append(out, m[i])
	}
	return out
}

var stuckSeen bool

func checkWork(c workCase) *vt.Fail {
	if !valid(c) {
		return nil
	}
	o := run(c, c.strategy(), false)
	if o.stuck {
		if !stuckSeen {
			stuckSeen = true
			rec.Infra("a task blocked outside the scheduler shims (the code under test uses a primitive the harness does not control)")
		}
		return nil
	}
	if o.fail != nil {
		// re-run with a trace for the report (deterministic)
		o2 := run(c, c.strategy(), true)
		if o2.fail != nil {
			return o2.fail
		}
		return o.fail
	}
	return nil
}

func genGraph(t *rapid.T, c *workCase) {
	items := rapid.IntRange(1, 10).Draw(t, "items")
	c.N = rapid.IntRange(1, 6).Draw(t, "n")
	// up to 8 items queued before Do (more than n: the start-up of the runners overlaps with Adds made by the first calls of f)
	c.Initial = rapid.SliceOfN(rapid.IntRange(0, items-1), 1, 8).Draw(t, "initial")
	if rapid.IntRange(0, 11).Draw(t, "empty") == 7 {
		c.Initial = nil // Do on a Work nothing was ever added to: returns at once, f is never called
	}
	for i := 0; i < items; i++ {
		c.Succ = append(c.Succ, rapid.SliceOfN(rapid.IntRange(0, items-1), 0, 3).Draw(t, "succ"))
		c.Yields = append(c.Yields, rapid.IntRange(0, 3).Draw(t, "yields"))
		c.After = append(c.After, rapid.IntRange(0, 2).Draw(t, "after"))
	}
	if rapid.IntRange(0, 3).Draw(t, "dependent") == 2 {
		// calls of f that wait for other items to have started; needs a runner per item
		if c.N < items {
			c.N = items
		}
		for i := 0; i < items; i++ {
			var ws []int
			for _, j := range append(append([]int{}, c.Succ[i]...), c.Initial...) {
				if j != i && rapid.IntRange(0, 2).Draw(t, "waitfor") == 1 {
					ws = append(ws, j)
				}
			}
			c.WaitFor = append(c.WaitFor, ws)
		}
	}
	if rapid.IntRange(0, 7).Draw(t, "panics") == 5 && c.N >= 2 {
		var leaves []int
		for i := 0; i < items; i++ {
			if len(c.Succ[i]) == 0 {
				leaves = append(leaves, i)
			}
		}
		if len(leaves) > 0 {
			c.PanicItem = 1 + rapid.SampledFrom(leaves).Draw(t, "panicitem")
		}
	}
	c.Others = rapid.IntRange(0, 5).Draw(t, "others") == 4
	if rapid.IntRange(0, 7).Draw(t, "redo") == 3 {
		c.Redo = make([]int, items)
		c.Redo[rapid.IntRange(0, items-1).Draw(t, "redoat")] = rapid.IntRange(1, 6).Draw(t, "redon")
	}
	if rapid.IntRange(0, 2).Draw(t, "typed") == 0 {
		nilAt := -1
		if rapid.Bool().Draw(t, "hasnil") {
			nilAt = rapid.IntRange(0, items-1).Draw(t, "nilat")
		}
		for i := 0; i < items; i++ {
			k := rapid.SampledFrom([]string{"int", "string", "struct"}).Draw(t, "itemkind")
			if i == nilAt {
				k = "nil"
			}
			c.Items = append(c.Items, k)
		}
		if rapid.IntRange(0, 3).Draw(t, "hasnan") == 1 {
			// leaves that are added exactly once may be values that are not equal to themselves
			for i := 0; i < items; i++ {
				adds := 0
				for _, x := range c.Initial {
					if x == i {
						adds++
					}
				}
				for _, ss := range c.Succ {
					for _, x := range ss {
						if x == i {
							adds++
						}
					}
				}
				if adds == 1 && len(c.Succ[i]) == 0 && c.Items[i] != "nil" {
					c.Items[i] = "nan"
				}
			}
		}
	}
}

func genWork(t *rapid.T) workCase {
	var c workCase
	genGraph(t, &c)
	if rapid.IntRange(0, 3).Draw(t, "mode") == 0 {
		c.Mode = "pct"
		c.Prio = rapid.SliceOfN(rapid.Byte(), 1, 6).Draw(t, "prio")
		c.Changes = rapid.SliceOfN(rapid.IntRange(0, 120), 0, 4).Draw(t, "changes")
	} else {
		c.Mode = "seq"
		// schedules shorter than the step count leave the tail sequential; draw at least ~the expected steps
		min := 20 + 6*len(c.Succ)
		c.Sched = rapid.SliceOfN(rapid.Uint8Range(0, 5), min, min+80).Draw(t, "sched")
	}
	c.Data = rapid.SliceOfN(rapid.Uint8Range(0, 7), 0, 20).Draw(t, "data")
	return c
}

func metaWork(c workCase) vt.Meta {
	o := run(c, c.strategy(), false)
	cl := []string{fmt.Sprintf("workers=%d", c.N), "mode=" + c.Mode}
	if o.wokenByAdd {
		cl = append(cl, "waiter-woken-by-add")
	}
	return vt.Meta{NonTrivial: c.N >= 2 && o.wokenByAdd, Classes: cl}
}

func TestRandomSchedules(t *testing.T) {
	vt.Run(t, rec, vt.Prop[workCase]{Kind: "work", Gen: genWork, Check: checkWork, Meta: metaWork}, vt.N(15000, 400000))
}

// ---- bounded exhaustive enumeration ----

type exCase struct {
	workCase
	MaxPreempt int `json:"max_preempt"`
}

var smallGraphs = []workCase{
	{Initial: nil, Succ: [][]int{{}}}, // nothing added before Do
	{Initial: []int{0, 1}, Succ: [][]int{{2}, {}, {}}, Items: []string{"int", "nan", "nan"}},    // items that are not equal to themselves
	{Initial: []int{0, 1}, Succ: [][]int{{2}, {}, {}}, Others: true},                            // not the only Work of the process
	{Initial: []int{0, 1}, Succ: [][]int{{2}, {}, {}}, Redo: []int{1, 0, 5}},                    // a refused second Do from inside f, with fewer and with more runners
	{Initial: []int{0}, Succ: [][]int{{}}},                                                      // single item
	{Initial: []int{0}, Succ: [][]int{{1}, {}}},                                                 // chain of 2
	{Initial: []int{0}, Succ: [][]int{{1}, {2}, {}}},                                            // chain of 3
	{Initial: []int{0}, Succ: [][]int{{1, 2}, {}, {}}},                                          // fan-out
	{Initial: []int{0, 1}, Succ: [][]int{{2}, {2}, {}}},                                         // join (duplicate add)
	{Initial: []int{0}, Succ: [][]int{{0, 1}, {0}}},                                             // self loop / back edge
	{Initial: []int{0, 0, 1}, Succ: [][]int{{}, {}}},                                            // duplicate initial adds
	{Initial: []int{0}, Succ: [][]int{{1, 2}, {3}, {3}, {}}},                                    // diamond
	{Initial: []int{0}, Succ: [][]int{{1}, {}}, Items: []string{"nil", "string"}},               // a nil item first
	{Initial: []int{0}, Succ: [][]int{{1, 2}, {}, {}}, Items: []string{"struct", "nil", "int"}}, // a nil item added from inside f
	{Initial: []int{0}, Succ: [][]int{{1, 2}, {}, {}}, WaitFor: [][]int{{1, 2}, {2}, {1}}},      // f(0) adds two items in a burst; all three calls rendezvous (n=3 only)
	{Initial: []int{0}, Succ: [][]int{{1}, {2}, {}}, WaitFor: [][]int{nil, {2}, nil}},           // a chain whose middle call waits for the last item to start (n=2: the runner that finished the first item must be woken for it)
	{Initial: []int{0, 1, 2}, Succ: [][]int{{3}, {4}, {}, {}, {}}},                              // as many queued items as runners, the first calls add more
	{Initial: []int{0, 1, 2, 3}, Succ: [][]int{{4}, {}, {}, {}, {}}},                            // more queued items than runners
}

func checkExhaustive(c exCase) *vt.Fail {
	if !valid(c.workCase) {
		return nil
	}
	budget := 400000
	if !vt.Thorough() && len(c.Initial) >= 3 {
		budget = 20000 // the wide start-up graphs have millions of schedules: the quick tier samples a prefix of the enumeration
	}
	e := &sched.Exhaustive{MaxPreempt: c.MaxPreempt, Budget: budget}
	for e.Next() {
		o := run(c.workCase, e, false)
		if o.stuck {
			rec.Infra("task blocked outside the shims during exhaustive enumeration")
			return nil
		}
		if o.fail != nil {
			o.fail.Msg = fmt.Sprintf("(execution %d of the bounded enumeration, <=%d preemptions) %s", e.Runs, c.MaxPreempt, o.fail.Msg)
			return o.fail
		}
		if o.wokenByAdd {
			exWoken++
		}
	}
	exRuns += int64(e.Runs)
	if e.Truncated {
		exTrunc++
	}
	return nil
}

var exRuns, exWoken, exTrunc int64

func TestExhaustive(t *testing.T) {
	maxP := 2
	if vt.Thorough() {
		maxP = 3
	}
	idx := 0
	for _, g := range smallGraphs {
		for n := 1; n <= 3; n++ {
			for _, y := range []int{0, 1} {
				idx++
				if idx%vt.NShards() != vt.Shard() {
					continue
				}
				c := exCase{workCase: g, MaxPreempt: maxP}
				c.N = n
				c.Yields = make([]int, len(g.Succ))
				c.After = make([]int, len(g.Succ))
				for i := range c.Yields {
					c.Yields[i] = y
					if vt.Thorough() || len(g.Initial) >= 3 {
						c.After[i] = y // f keeps running after its Adds
					}
				}
				before := exRuns
				ok := vt.CheckOne(rec, "exhaustive", c, checkExhaustive)
				rec.Sample("exhaustive", 2, map[string]any{"case": c, "executions": exRuns - before})
				if !ok {
					return
				}
			}
		}
	}
	rec.Eval(exRuns)
	rec.NonTrivialDistinct(exWoken)
	rec.Class("exhaustive:executions", exRuns)
	rec.Class("exhaustive:waiter-woken-by-add", exWoken)
	rec.Class("exhaustive:configs-truncated-by-budget", exTrunc)
	if exTrunc == 0 {
		rec.Exhaustive(fmt.Sprintf("all schedules with <= %d preemptions (and all rand.Intn / Signal choices) of par.Work for %d item graphs x n in 1..3 x 0/1 yields in f (this shard: %d executions)", maxP, len(smallGraphs), exRuns))
	}
}

var replayers = vt.Replayer{"work": vt.Decode(checkWork), "exhaustive": vt.Decode(checkExhaustive)}

func TestReplay(t *testing.T) { vt.Replay(t, rec, replayers) }
