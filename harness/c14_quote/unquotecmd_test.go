package c14

// The script command `unquote` (testscript/cmd.go, one of the anchored files) is how quoted archive files are brought
// back: for every data that Quote accepts, a file holding Quote(data), once the script has run `unquote` on it, holds data.

import (
	"bytes"
	"fmt"
	"os"
	"path/filepath"
	"strings"
	"testing"
	"time"

	"github.com/rogpeppe/go-internal/testscript"
	"github.com/rogpeppe/go-internal/txtar"
	"pgregory.net/rapid"

	"verif/tskit"
	"verif/vt"
)

type unquoteCase struct {
	Lines []string `json:"lines"` // the data, line by line (every line gets its newline)
	// Long: per line, a number of bytes by which the line is extended with its own last character (or ">" if empty), so
	// that lines reach and pass the sizes of the buffers a streaming implementation might use
	Long []int `json:"long,omitempty"`
	// Second: a second data (lines). The script then unquotes f, replaces it by another quoted file (cp g f) and
	// unquotes it again: every `unquote` line does its work, whatever was unquoted under that name before.
	Second []string `json:"second,omitempty"`
}

var uqLines = []string{"", "x", ">", ">>", "-- f --", "plain text", "> quoted already", "é", ">é", "a>b", " >", "--", ">-- f --"}

func (c unquoteCase) data() []byte {
	var b []byte
	for i, l := range c.Lines {
		if i < len(c.Long) && c.Long[i] > 0 {
			fill := ">"
			if l != "" {
				fill = l[len(l)-1:]
				if fill[0] >= 0x80 {
					fill = ">"
				}
			}
			l += strings.Repeat(fill, c.Long[i])
		}
		b = append(b, l...)
		b = append(b, '\n')
	}
	return b
}

func checkUnquoteCmd(c unquoteCase) *vt.Fail {
	if len(c.Lines) == 0 || len(c.Lines) > 12 {
		return nil
	}
	total := 0
	for i, l := range c.Lines {
		if strings.ContainsAny(l, "\n\r") || len(l) > 40 {
			return nil
		}
		if i < len(c.Long) {
			if c.Long[i] < 0 || c.Long[i] > 70000 {
				return nil
			}
			total += c.Long[i]
		}
	}
	if total > 200000 {
		return nil
	}
	data := c.data()
	quoted, err := txtar.Quote(data)
	if err != nil {
		return nil // (what Quote refuses is the other check's matter)
	}
	// the quoted form as an archive file; the archive keeps it as is (it never needs quoting)
	script := "unquote f\n-- f --\n" + string(quoted)
	if len(c.Second) > 0 && len(c.Second) <= 12 {
		d2 := unquoteCase{Lines: c.Second}.data()
		for _, l := range c.Second {
			if strings.ContainsAny(l, "\n\r") || len(l) > 40 {
				return nil
			}
		}
		q2, err := txtar.Quote(d2)
		if err != nil {
			return nil
		}
		script = "unquote f\ncp g f\nunquote f\n-- f --\n" + string(quoted) + "-- g --\n" + string(q2)
		data = d2
	}
	root := tskit.Scratch("c14uq")
	defer tskit.RemoveAll(root)
	rr := tskit.RunInProcess(root, []tskit.ScriptFile{{Name: "s", Data: []byte(script)}}, tskit.RunOpts{Params: testscript.Params{}, Retain: true, Deadline: time.Minute})
	if len(rr.Subs) != 1 {
		return vt.Failf("HARNESS-runt", "RunT: %s %s", rr.Top.Verdict, rr.Top.Log)
	}
	sub := rr.Subs[0]
	desc := fmt.Sprintf("data of %d lines, %d bytes (line lengths %v)", len(c.Lines), len(data), lineLens(data))
	if sub.Verdict != "pass" {
		return vt.Failf("unquote-command-failed", "the script `unquote f` on a file holding Quote(data) was reported %s; %s\nlog:\n%s", sub.Verdict, desc, trunc(sub.Log, 600))
	}
	got, rerr := os.ReadFile(filepath.Join(rr.WorkRoot, "script-s", "f"))
	if rerr != nil {
		return vt.Failf("HARNESS-read", "%v", rerr)
	}
	if !bytes.Equal(got, data) {
		i := 0
		for i < len(got) && i < len(data) && got[i] == data[i] {
			i++
		}
		return vt.Failf("unquote-command-wrong", "after `unquote f` the file does not hold the data that was quoted: %d bytes instead of %d, first difference at offset %d; %s", len(got), len(data), i, desc)
	}
	return nil
}

func lineLens(b []byte) []int {
	var ls []int
	for _, l := range bytes.SplitAfter(b, []byte("\n")) {
		if len(l) > 0 {
			ls = append(ls, len(l))
		}
	}
	return ls
}

func trunc(s string, n int) string {
	if len(s) > n {
		return s[:n] + "..."
	}
	return s
}

func TestUnquoteCommand(t *testing.T) {
	vt.Run(t, rec, vt.Prop[unquoteCase]{Kind: "unquotecmd", Gen: func(t *rapid.T) unquoteCase {
		var c unquoteCase
		for i, n := 0, rapid.IntRange(1, 6).Draw(t, "n"); i < n; i++ {
			c.Lines = append(c.Lines, rapid.SampledFrom(uqLines).Draw(t, "line"))
			ext := 0
			if rapid.IntRange(0, 3).Draw(t, "long") == 0 {
				ext = rapid.SampledFrom([]int{4090, 4093, 4094, 4095, 4096, 4097, 8190, 8192, 8193, 65534, 65536}).Draw(t, "ext") + rapid.IntRange(-2, 2).Draw(t, "jitter")
			}
			c.Long = append(c.Long, ext)
		}
		if rapid.IntRange(0, 3).Draw(t, "twice") == 2 {
			for i, n := 0, rapid.IntRange(1, 4).Draw(t, "n2"); i < n; i++ {
				c.Second = append(c.Second, rapid.SampledFrom(uqLines).Draw(t, "line2"))
			}
		}
		return c
	}, Check: checkUnquoteCmd, Meta: func(c unquoteCase) vt.Meta {
		long := false
		for _, n := range c.Long {
			long = long || n > 0
		}
		cl := []string{"unquote-command"}
		if long {
			cl = append(cl, "unquote-command-long-line")
		}
		return vt.Meta{NonTrivial: long, Classes: cl}
	}}, vt.N(150, 3000))
}
