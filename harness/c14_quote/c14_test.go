package c14

import (
	"bytes"
	"fmt"
	"sync/atomic"
	"testing"
	"unicode/utf8"

	"github.com/rogpeppe/go-internal/txtar"
	xtxtar "golang.org/x/tools/txtar"
	"pgregory.net/rapid"

	"verif/txtarref"
	"verif/vt"
)

var rec = vt.New("C14")

func TestMain(m *testing.M) { vt.Main(m, rec) }

type bodyCase struct {
	Body vt.B `json:"body"`
}

func fixNL(b []byte) []byte {
	if len(b) == 0 || b[len(b)-1] == '\n' {
		return b
	}
	return append(append([]byte(nil), b...), '\n')
}

// storedUnchanged reports whether an archive with the single file {"f", body}
// parses back (with parse) to exactly that file with the body (plus the final
// newline the format implies) and an empty comment.
func storedUnchanged(body []byte, parse func([]byte) *txtar.Archive) bool {
	a := parse(txtar.Format(&txtar.Archive{Files: []txtar.File{{Name: "f", Data: body}}}))
	return len(a.Comment) == 0 && len(a.Files) == 1 && a.Files[0].Name == "f" && bytes.Equal(a.Files[0].Data, fixNL(body))
}

func refParse(x []byte) *txtar.Archive {
	r := txtarref.Parse(x)
	a := &txtar.Archive{Comment: r.Comment}
	for _, f := range r.Files {
		a.Files = append(a.Files, txtar.File{Name: f.Name, Data: f.Data})
	}
	return a
}

// sampleExtras: during the exhaustive enumeration the argument-intact and result-stability checks (which triple the cost
// of a case) run on one string in 16, chosen by a hash of the string; everywhere else they always run.
var sampleExtras atomic.Bool

func extrasFor(b []byte) bool {
	if !sampleExtras.Load() {
		return true
	}
	h := uint32(2166136261)
	for _, x := range b {
		h = (h ^ uint32(x)) * 16777619
	}
	return h%16 == 0
}

func checkBody(c bodyCase) *vt.Fail {
	body := []byte(c.Body)
	extras := extrasFor(body)
	cp := func() []byte { return append([]byte(nil), body...) }
	r1 := txtarref.HasMarkerLine(body)
	// reference consistency (harness self-check): R1 == parser effect under the reference definition
	if bytes.IndexByte(body, '\r') < 0 {
		if r2 := !storedUnchanged(cp(), xtxtar.Parse); r2 != r1 {
			return vt.Failf("HARNESS-r1-vs-xtools", "line-scan reference says marker=%v but x/tools parser effect says %v", r1, r2)
		}
	} else if r2 := !storedUnchanged(cp(), refParse); r2 != r1 {
		return vt.Failf("HARNESS-r1-vs-refparse", "line-scan reference says marker=%v but reference parser effect says %v", r1, r2)
	}
	var nq bool
	arg, intact := body, func() bool { return true }
	if extras {
		arg, intact = vt.WithSpare(body)
	} else {
		arg = cp()
	}
	if f := vt.Guard("needsquote-panic", func() *vt.Fail { nq = txtar.NeedsQuote(arg); return nil }); f != nil {
		return f
	}
	if !intact() {
		return vt.Failf("argument-modified", "NeedsQuote(%q) modified its argument or the memory behind it", body)
	}
	if nq != r1 {
		return vt.Failf("needsquote-inexact", "NeedsQuote(%q) = %v but the body %s a file marker line", body, nq, map[bool]string{true: "contains", false: "does not contain"}[r1])
	}
	var changed bool
	if f := vt.Guard("parse-panic", func() *vt.Fail { changed = !storedUnchanged(cp(), txtar.Parse); return nil }); f != nil {
		return f
	}
	if nq != changed {
		return vt.Failf("needsquote-vs-parse", "NeedsQuote(%q) = %v but storing it as a file body changes the parse: %v", body, nq, changed)
	}
	// Quote / Unquote
	var q []byte
	var qerr error
	if extras {
		arg, intact = vt.WithSpare(body)
	} else {
		arg = cp()
	}
	if f := vt.Guard("quote-panic", func() *vt.Fail { q, qerr = txtar.Quote(arg); return nil }); f != nil {
		return f
	}
	if !intact() {
		return vt.Failf("argument-modified", "Quote(%q) modified its argument or the memory behind it", body)
	}
	if qerr != nil {
		return nil // refusal is allowed
	}
	var u []byte
	var uerr error
	if extras {
		if f := vt.Stable(func() string { return fmt.Sprintf("Quote(%q)", body) }, q, func() {
			txtar.Quote([]byte("-- other --\nsome other\n-- body --\n"))
			txtar.Quote([]byte("refused: no final newline"))
		}); f != nil {
			return f
		}
	}
	qarg, qintact := append([]byte(nil), q...), func() bool { return true }
	if extras {
		qarg, qintact = vt.WithSpare(q)
	}
	if f := vt.Guard("unquote-panic", func() *vt.Fail { u, uerr = txtar.Unquote(qarg); return nil }); f != nil {
		return f
	}
	if !qintact() {
		return vt.Failf("argument-modified", "Unquote(%q) modified its argument or the memory behind it", q)
	}
	if extras {
		if f := vt.Stable(func() string { return fmt.Sprintf("Unquote(%q)", q) }, u, func() { txtar.Unquote([]byte(">-- other --\n>quoted text\n")) }); f != nil {
			return f
		}
	}
	if uerr != nil || !bytes.Equal(u, body) {
		return vt.Failf("quote-unquote-not-inverse", "Quote(%q) = %q but Unquote of that = %q, %v", body, q, u, uerr)
	}
	if txtar.NeedsQuote(append([]byte(nil), q...)) || txtarref.HasMarkerLine(q) {
		return vt.Failf("quoted-needs-quote", "Quote(%q) = %q still contains a marker line", body, q)
	}
	if len(q) > 0 && !storedUnchanged(append([]byte(nil), q...), txtar.Parse) {
		return vt.Failf("quoted-not-preserved", "quoted form %q does not survive Format/Parse unchanged", q)
	}
	if len(q) > 0 && bytes.IndexByte(q, '\r') < 0 && !storedUnchanged(append([]byte(nil), q...), xtxtar.Parse) {
		return vt.Failf("quoted-not-preserved", "quoted form %q does not survive Format/Parse (x/tools) unchanged", q)
	}
	return nil
}

func classify(body []byte) []string {
	var cl []string
	if txtarref.HasMarkerLine(body) {
		ls, term := txtarref.Lines(body)
		if _, ok := txtarref.MarkerName(ls[len(ls)-1]); ok {
			if term[len(ls)-1] {
				cl = append(cl, "marker-last-line-terminated")
			} else {
				cl = append(cl, "marker-last-line-unterminated")
			}
		} else {
			cl = append(cl, "marker-inner")
		}
	} else {
		cl = append(cl, "no-marker")
	}
	if len(body) > 0 && body[len(body)-1] == '\n' && utf8.Valid(body) {
		cl = append(cl, "quotable")
	}
	return cl
}

func nontrivial(body []byte) bool {
	ls, _ := txtarref.Lines(body)
	for _, l := range ls {
		if bytes.HasPrefix(l, []byte("-- ")) || bytes.HasPrefix(l, []byte(">")) {
			return true
		}
	}
	return false
}

var alphabet = []byte("- x\n\r>")

func TestExhaustive(t *testing.T) {
	maxLen := 9
	if vt.Thorough() {
		maxLen = 11
	}
	var nt, viol, lastUnterm, lastTerm int64
	sampleExtras.Store(true)
	defer sampleExtras.Store(false)
	total := txtarref.Enum(alphabet, maxLen, vt.Shard(), vt.NShards(), func(w int, s []byte) {
		if atomic.LoadInt64(&viol) > 5 {
			return
		}
		c := bodyCase{Body: append(vt.B(nil), s...)}
		if !vt.CheckOne(rec, "body", c, checkBody) {
			atomic.AddInt64(&viol, 1)
		}
		if nontrivial(s) {
			atomic.AddInt64(&nt, 1)
		}
		if txtarref.HasMarkerLine(s) {
			for _, cl := range classify(s) {
				switch cl {
				case "marker-last-line-unterminated":
					atomic.AddInt64(&lastUnterm, 1)
				case "marker-last-line-terminated":
					atomic.AddInt64(&lastTerm, 1)
				}
			}
		}
	})
	rec.Eval(total)
	rec.NonTrivialDistinct(nt)
	rec.Class("exhaustive:strings", total)
	rec.Class("exhaustive:nontrivial", nt)
	rec.Class("exhaustive:marker-last-line-unterminated", lastUnterm)
	rec.Class("exhaustive:marker-last-line-terminated", lastTerm)
	rec.Exhaustive(fmt.Sprintf("all byte strings over %q of length <= %d as file bodies (this shard: %d)", alphabet, maxLen, total))
	rec.Sample("exhaustive", 1, bodyCase{Body: vt.B("x\n-- x --")})
	if viol > 0 {
		t.Errorf("%d violations", viol)
	}
}

var hostile = []string{"a\n-- x --", "-- x --", "-- x --\r", "-- x --\r\n", "a\n-- x --\n", ">-- x --\n", "-- --", "--  --\n", "\xff\n", ">\n>", "a\r\n-- x --\r\nb\r\n", "-- \u0085 --\n", "--  x --\n"}

func TestHostile(t *testing.T) {
	for _, h := range hostile {
		rec.Eval(1)
		vt.CheckOne(rec, "body", bodyCase{Body: vt.B(h)}, checkBody)
	}
}

var fragPool = []string{
	"-- ", " --", "--", "-- --", "--  --", "-- x --", "-- y --", "--   z   --", "-- a -- b --", "x", "hello", " ", "\t",
	"\u0085", " ", "-- \u0085 --", "--  x  --", ">", ">>", ">-- x --", "-", "\xff", "-- \xff --", "--\t--", "-- \t --", "héllo", "日本",
}

func genBody(t *rapid.T) bodyCase {
	n := rapid.IntRange(0, 7).Draw(t, "nlines")
	var x []byte
	for i := 0; i < n; i++ {
		k := rapid.IntRange(0, 3).Draw(t, "nfrag")
		for j := 0; j < k; j++ {
			if rapid.IntRange(0, 11).Draw(t, "arb") == 0 {
				for _, b := range rapid.SliceOfN(rapid.Byte(), 0, 4).Draw(t, "bytes") {
					if b != '\n' {
						x = append(x, b)
					}
				}
			} else {
				x = append(x, rapid.SampledFrom(fragPool).Draw(t, "frag")...)
			}
		}
		switch rapid.IntRange(0, 9).Draw(t, "eol") {
		case 0, 1:
			x = append(x, '\r', '\n')
		case 2:
			if i == n-1 {
				x = append(x, '\r')
			} else {
				x = append(x, '\n')
			}
		case 3, 4:
			if i != n-1 {
				x = append(x, '\n')
			}
		default:
			x = append(x, '\n')
		}
	}
	return bodyCase{Body: x}
}

func TestBodyRandom(t *testing.T) {
	vt.Run(t, rec, vt.Prop[bodyCase]{Kind: "body", Gen: genBody, Check: checkBody, Meta: func(c bodyCase) vt.Meta {
		return vt.Meta{NonTrivial: nontrivial(c.Body), Classes: classify(c.Body)}
	}}, vt.N(40000, 500000))
}

var replayers = vt.Replayer{"body": vt.Decode(checkBody), "unquotecmd": vt.Decode(checkUnquoteCmd)}

func TestReplay(t *testing.T) { vt.Replay(t, rec, replayers) }

func FuzzBody(f *testing.F) {
	for _, h := range hostile {
		f.Add([]byte(h))
	}
	f.Fuzz(func(t *testing.T, x []byte) {
		c := bodyCase{Body: x}
		if fl := vt.Guard("harness-panic", func() *vt.Fail { return checkBody(c) }); fl != nil {
			if rec.Report("body", fl, c) {
				t.Fatalf("%v", fl)
			}
		}
	})
}
