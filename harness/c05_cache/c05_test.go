package c05

import (
	"bytes"
	"crypto/sha256"
	"fmt"
	"os"
	"path/filepath"
	"strings"
	"sync"
	"testing"

	"github.com/rogpeppe/go-internal/cache"
	"pgregory.net/rapid"

	"verif/cachekit"
	"verif/vt"
)

var rec = vt.New("C05")

func TestMain(m *testing.M) { vt.Main(m, rec) }

const nIDs = 6

type op struct {
	Op    string `json:"op"`            // put putbytes putnoverify get getbytes getfile outputfile reopen damage plant
	ID    int    `json:"id,omitempty"`  // action id number
	C     int    `json:"c,omitempty"`   // content number
	Tgt   string `json:"tgt,omitempty"` // damage target: index | data
	Kind  string `json:"kind,omitempty"`
	K     int    `json:"k,omitempty"`
	Bytes vt.B   `json:"bytes,omitempty"`
}

type histCase struct {
	Ops []op `json:"ops"`
}

var (
	dirOnce sync.Once
	dir     string
	dirErr  error
	hot     = map[byte]bool{}
)

func cacheDir() (string, error) {
	dirOnce.Do(func() {
		dir, dirErr = cachekit.NewDir(cachekit.Scratch(), fmt.Sprintf("c05-%d", os.Getpid()))
		for i := 0; i < nIDs; i++ {
			hot[cachekit.ID(i)[0]] = true
		}
		for c := 0; c < cachekit.NContents; c++ {
			hot[cachekit.Sum(cachekit.Content(c))[0]] = true
		}
	})
	return dir, dirErr
}

func notFound(err error) bool {
	return err != nil && strings.HasPrefix(err.Error(), "cache entry not found")
}

type model struct {
	stored      [nIDs]int // content number last successfully Put, -1 none
	indexIntact [nIDs]bool
	dataIntact  [cachekit.NContents]bool
	indexExists [nIDs]bool // some index file may exist (put or planted)
}

func checkHist(h histCase) *vt.Fail {
	d, err := cacheDir()
	if err != nil {
		return vt.Failf("HARNESS-dir", "%v", err)
	}
	cachekit.Clean(d, hot)
	c, err := cache.Open(d)
	if err != nil {
		return vt.Failf("HARNESS-open", "%v", err)
	}
	var m model
	for i := range m.stored {
		m.stored[i] = -1
	}
	var handles [2]*cache.Cache
	cur := 0
	for step, o := range h.Ops {
		if o.ID < 0 || o.ID >= nIDs || o.C < 0 || o.C >= cachekit.NContents {
			continue
		}
		id := cache.ActionID(cachekit.ID(o.ID))
		content := cachekit.Content(o.C)
		switch o.Op {
		case "put", "putbytes", "putnoverify", "putfile":
			var perr error
			var out cache.OutputID
			var size int64
			if f := vt.Guard("put-panic", func() *vt.Fail {
				switch o.Op {
				case "put":
					out, size, perr = c.Put(id, bytes.NewReader(content))
				case "putfile":
					// the data comes from a file of the caller's (on the cache's file system), which the caller goes on
					// using: as soon as Put has returned it writes something else of the same length into it
					src := filepath.Join(filepath.Dir(d), fmt.Sprintf("c05src-%d-%d", os.Getpid(), o.ID))
					if werr := os.WriteFile(src, content, 0o666); werr != nil {
						perr = c.PutBytes(id, content)
						out, size = sha256.Sum256(content), int64(len(content))
						break
					}
					f, oerr := os.Open(src)
					if oerr != nil {
						perr = oerr
						break
					}
					out, size, perr = c.Put(id, f)
					f.Close()
					if w, werr := os.OpenFile(src, os.O_WRONLY, 0); werr == nil {
						other := bytes.Repeat([]byte{'#'}, len(content))
						w.Write(other)
						w.Close()
					}
					os.Remove(src)
				case "putnoverify":
					out, size, perr = c.PutNoVerify(id, bytes.NewReader(content))
				default:
					perr = c.PutBytes(id, content)
					out, size = sha256.Sum256(content), int64(len(content))
				}
				return nil
			}); f != nil {
				return f
			}
			if perr != nil {
				return vt.Failf("put-failed", "step %d: %s(id%d, content%d) failed on a writable cache: %v", step, o.Op, o.ID, o.C, perr)
			}
			if out != sha256.Sum256(content) || size != int64(len(content)) {
				return vt.Failf("put-wrong-result", "step %d: Put returned OutputID %x size %d for content %d", step, out, size, o.C)
			}
			m.stored[o.ID] = o.C
			m.indexIntact[o.ID] = true
			m.indexExists[o.ID] = true
			m.dataIntact[o.C] = true
			// another content with identical bytes does not exist (contents are pairwise distinct)
		case "reopen":
			c, err = cache.Open(d)
			if err != nil {
				return vt.Failf("reopen-failed", "step %d: %v", step, err)
			}
		case "switch":
			// continue through the other of two Cache handles on the same directory (what one handle stored, damaged
			// files included, is what the other sees: nothing may be remembered per handle)
			handles[cur] = c
			cur ^= 1
			if handles[cur] == nil {
				if handles[cur], err = cache.Open(d); err != nil {
					return vt.Failf("reopen-failed", "step %d: %v", step, err)
				}
			}
			c = handles[cur]
		case "outputfile":
			want := cachekit.DataPath(d, cachekit.Sum(content))
			var got string
			if f := vt.Guard("outputfile-panic", func() *vt.Fail { got = c.OutputFile(cachekit.Sum(content)); return nil }); f != nil {
				return f
			}
			if got != want {
				return vt.Failf("outputfile-path", "step %d: OutputFile = %q want %q", step, got, want)
			}
		case "damage":
			var path string
			if o.Tgt == "index" {
				path = cachekit.IndexPath(d, cachekit.ID(o.ID))
				m.indexIntact[o.ID] = false
			} else {
				path = cachekit.DataPath(d, cachekit.Sum(content))
				m.dataIntact[o.C] = false
			}
			old, rerr := os.ReadFile(path)
			switch o.Kind {
			case "delete":
				os.Remove(path)
			case "truncate":
				if rerr == nil {
					k := 0
					if len(old) > 0 {
						k = o.K % (len(old) + 1)
					}
					os.Truncate(path, int64(k))
				}
			case "extend":
				if rerr == nil {
					os.WriteFile(path, append(old, o.Bytes...), 0o666)
				}
			case "flip":
				if rerr == nil && len(old) > 0 {
					old[o.K%len(old)] ^= byte(1 + o.K%255)
					os.WriteFile(path, old, 0o666)
				}
			case "replace":
				os.WriteFile(path, o.Bytes, 0o666)
				if o.Tgt == "index" {
					m.indexExists[o.ID] = true
				}
			case "samesize":
				if rerr == nil {
					nb := bytes.Repeat([]byte{byte(o.K)}, len(old))
					os.WriteFile(path, nb, 0o666)
				}
			}
		default: // lookups happen below for every step
		}
		// ---- invariant: look every id up ----
		for i := 0; i < nIDs; i++ {
			if f := lookup(c, d, &m, i, step, o); f != nil {
				return f
			}
		}
	}
	return nil
}

func lookup(c *cache.Cache, d string, m *model, i, step int, o op) *vt.Fail {
	id := cache.ActionID(cachekit.ID(i))
	ctx := fmt.Sprintf("after step %d (%s id%d c%d %s/%s)", step, o.Op, o.ID, o.C, o.Tgt, o.Kind)
	var (
		data       []byte
		e1, e2, e3 cache.Entry
		err1, err2 error
		err3       error
		file       string
	)
	if f := vt.Guard("lookup-panic", func() *vt.Fail {
		e3, err3 = c.Get(id)
		data, e1, err1 = c.GetBytes(id)
		file, e2, err2 = c.GetFile(id)
		return nil
	}); f != nil {
		f.Msg = ctx + ": " + f.Msg
		return f
	}
	_ = e3
	intact := m.stored[i] >= 0 && m.indexIntact[i] && m.dataIntact[m.stored[i]]
	if intact {
		want := cachekit.Content(m.stored[i])
		sum := sha256.Sum256(want)
		if err3 != nil || err1 != nil || err2 != nil {
			return vt.Failf("stored-entry-lost", "%s: id%d holds content %d and nothing touched it, but Get=%v GetBytes=%v GetFile=%v", ctx, i, m.stored[i], err3, err1, err2)
		}
		if !bytes.Equal(data, want) {
			return vt.Failf("getbytes-wrong-bytes", "%s: GetBytes(id%d) returned %d bytes that are not the stored content %d", ctx, i, len(data), m.stored[i])
		}
		fb, rerr := os.ReadFile(file)
		if rerr != nil || !bytes.Equal(fb, want) {
			return vt.Failf("getfile-wrong-bytes", "%s: GetFile(id%d) names %q which does not hold the stored content (err %v)", ctx, i, file, rerr)
		}
		for _, e := range []cache.Entry{e1, e2, e3} {
			if e.OutputID != sum || e.Size != int64(len(want)) {
				return vt.Failf("entry-wrong", "%s: id%d entry reports OutputID %x size %d, want %x %d", ctx, i, e.OutputID, e.Size, sum, len(want))
			}
		}
		return nil
	}
	// damaged / never stored
	if err1 == nil {
		if sha256.Sum256(data) != e1.OutputID {
			return vt.Failf("getbytes-unverified", "%s: GetBytes(id%d) returned %d bytes whose SHA-256 is not the reported OutputID", ctx, i, len(data))
		}
	} else if !notFound(err1) {
		return vt.Failf("getbytes-other-error", "%s: GetBytes(id%d) error is not a not-found error: %v", ctx, i, err1)
	}
	if err2 == nil {
		st, serr := os.Stat(file)
		if serr != nil || st.Size() != e2.Size {
			return vt.Failf("getfile-size", "%s: GetFile(id%d) names %q (stat err %v) whose length is not the reported size %d", ctx, i, file, serr, e2.Size)
		}
	} else if !notFound(err2) {
		return vt.Failf("getfile-other-error", "%s: GetFile(id%d) error is not a not-found error: %v", ctx, i, err2)
	}
	if !m.indexExists[i] && (err1 == nil || err2 == nil || err3 == nil) {
		return vt.Failf("found-never-stored", "%s: id%d was never stored or planted but a lookup succeeded", ctx, i)
	}
	return nil
}

// ---- generator ----

func genEntryBytes(t *rapid.T, id int) []byte {
	cn := rapid.IntRange(0, cachekit.NContents-1).Draw(t, "ec")
	content := cachekit.Content(cn)
	out := cachekit.Sum(content)
	size := int64(len(content))
	tm := int64(1700000000000000000)
	e := cachekit.Entry(cachekit.ID(id), out, size, tm)
	switch rapid.IntRange(0, 13).Draw(t, "ek") {
	case 0: // fully valid
		return []byte(e)
	case 1: // other id
		return []byte(cachekit.Entry(cachekit.ID((id+1)%nIDs), out, size, tm))
	case 2: // upper-case hex
		return []byte(strings.ToUpper(e[:3+64]) + e[3+64:])
	case 3: // size with sign
		return []byte(fmt.Sprintf("v1 %x %x %20s %20d\n", cachekit.ID(id), out, fmt.Sprintf("+%d", size), tm))
	case 4:
		return []byte(fmt.Sprintf("v1 %x %x %20d %20d\n", cachekit.ID(id), out, -size-1, tm))
	case 5: // blank size
		return []byte(fmt.Sprintf("v1 %x %x %20s %20d\n", cachekit.ID(id), out, "", tm))
	case 6: // size at and beyond the limits of int64 / uint64, or tiny variations of the real one
		big := rapid.SampledFrom([]string{"99999999999999999999", "9223372036854775807", "9223372036854775808", "18446744073709551615", "18446744073709551616", "4294967296", "2147483648", "-0", "0x10", "1e3", "00000000000000000139"}).Draw(t, "bigsize")
		return []byte(fmt.Sprintf("v1 %x %x %20s %20d\n", cachekit.ID(id), out, big, tm))
	case 7: // wrong size
		return []byte(cachekit.Entry(cachekit.ID(id), out, size+int64(rapid.IntRange(-2, 2).Draw(t, "ds")), tm))
	case 8: // missing newline
		return []byte(e[:len(e)-1])
	case 9: // one byte too long
		return []byte(e + "x")
	case 10: // one byte short at front
		return []byte(e[1:])
	case 11: // bad time
		return []byte(fmt.Sprintf("v1 %x %x %20d %20s\n", cachekit.ID(id), out, size, rapid.SampledFrom([]string{"-1", "", "x", "+5", "99999999999999999999", "9223372036854775808", "18446744073709551615", "-9223372036854775808", "0"}).Draw(t, "tm")))
	case 12: // separators damaged
		b := []byte(e)
		pos := rapid.SampledFrom([]int{0, 1, 2, 3 + 64, 3 + 64 + 1 + 64, 3 + 64 + 1 + 64 + 1 + 20, len(e) - 1}).Draw(t, "sep")
		b[pos] = rapid.SampledFrom([]byte{'x', ' ', '\n', 0}).Draw(t, "sepb")
		return b
	default:
		return rapid.SliceOfN(rapid.Byte(), 0, 200).Draw(t, "arb")
	}
}

func genHist(t *rapid.T) histCase {
	n := rapid.IntRange(1, 30).Draw(t, "nops")
	var h histCase
	for i := 0; i < n; i++ {
		o := op{ID: rapid.IntRange(0, nIDs-1).Draw(t, "id"), C: rapid.IntRange(0, cachekit.NContents-1).Draw(t, "c")}
		switch rapid.IntRange(0, 11).Draw(t, "op") {
		case 0, 1, 2:
			o.Op = "put"
		case 3:
			o.Op = "putbytes"
			if rapid.Bool().Draw(t, "fromfile") {
				o.Op = "putfile"
			}
		case 4:
			o.Op = "putnoverify"
		case 5:
			o.Op = "lookup"
		case 6, 7:
			o.Op = rapid.SampledFrom([]string{"switch", "reopen", "outputfile", "switch"}).Draw(t, "misc")
		default:
			o.Op = "damage"
			o.Tgt = rapid.SampledFrom([]string{"index", "data", "data"}).Draw(t, "tgt")
			o.Kind = rapid.SampledFrom([]string{"truncate", "extend", "flip", "delete", "replace", "samesize"}).Draw(t, "kind")
			o.K = rapid.IntRange(0, 1<<20).Draw(t, "k")
			switch {
			case o.Kind == "replace" && o.Tgt == "index":
				o.Bytes = genEntryBytes(t, o.ID)
			case o.Kind == "replace" || o.Kind == "extend":
				o.Bytes = rapid.SliceOfN(rapid.Byte(), 1, 300).Draw(t, "db")
			}
		}
		h.Ops = append(h.Ops, o)
	}
	return h
}

func metaHist(h histCase) vt.Meta {
	put := map[int]bool{}
	putC := map[int]bool{}
	damaged := false
	nt := false
	var cl []string
	kinds := map[string]bool{}
	for _, o := range h.Ops {
		switch o.Op {
		case "put", "putbytes", "putnoverify", "putfile":
			if damaged {
				kinds["put-after-damage"] = true
			}
			put[o.ID] = true
			putC[o.C] = true
		case "damage":
			if (o.Tgt == "index" && (put[o.ID] || o.Kind == "replace")) || (o.Tgt == "data" && putC[o.C]) {
				damaged = true
				nt = true // every step looks all ids up, so a lookup follows
				kinds["damage-"+o.Tgt+"-"+o.Kind] = true
			}
		}
	}
	for k := range kinds {
		cl = append(cl, k)
	}
	return vt.Meta{NonTrivial: nt, Classes: cl}
}

func TestHistories(t *testing.T) {
	vt.Run(t, rec, vt.Prop[histCase]{Kind: "history", Gen: genHist, Check: checkHist, Meta: metaHist, Reduce: func(h histCase) []histCase {
		var out []histCase
		for _, ops := range vt.DropOne(h.Ops) {
			out = append(out, histCase{Ops: ops})
		}
		return out
	}}, vt.N(1500, 12000))
}

// TestRepairMatrix: every damage kind on a stored output followed by Put of the same content must repair it (deterministic).
func TestRepairMatrix(t *testing.T) {
	n := int64(0)
	for c := 0; c < cachekit.NContents; c++ {
		for _, kind := range []string{"truncate", "extend", "flip", "delete", "replace", "samesize"} {
			for _, k := range []int{0, 1, 77, 4096} {
				h := histCase{Ops: []op{{Op: "put", ID: 0, C: c}, {Op: "damage", ID: 0, C: c, Tgt: "data", Kind: kind, K: k, Bytes: vt.B("zzzz")}, {Op: "put", ID: 1, C: c}, {Op: "lookup"}}}
				n++
				vt.CheckOne(rec, "history", h, checkHist)
			}
		}
	}
	rec.Eval(n)
	rec.NonTrivialDistinct(n)
	rec.Class("repair-matrix", n)
}

var replayers = vt.Replayer{"history": vt.Decode(checkHist)}

func TestReplay(t *testing.T) { vt.Replay(t, rec, replayers) }

// FuzzIndexEntry: arbitrary bytes as the index entry of a stored id (thorough).
func FuzzIndexEntry(f *testing.F) {
	f.Add([]byte(cachekit.Entry(cachekit.ID(0), cachekit.Sum(cachekit.Content(2)), 139, 1)))
	f.Add([]byte("v1 "))
	f.Fuzz(func(t *testing.T, x []byte) {
		h := histCase{Ops: []op{{Op: "put", ID: 0, C: 2}, {Op: "put", ID: 1, C: 7}, {Op: "damage", ID: 0, C: 2, Tgt: "index", Kind: "replace", Bytes: x}, {Op: "put", ID: 0, C: 2}}}
		if fl := vt.Guard("harness-panic", func() *vt.Fail { return checkHist(h) }); fl != nil {
			if rec.Report("history", fl, h) {
				t.Fatalf("%v", fl)
			}
		}
	})
}
