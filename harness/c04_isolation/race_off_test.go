//go:build !race

package c04

const raceEnabled = false
