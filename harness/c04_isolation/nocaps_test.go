package c04

// Cleanup under enforced permission bits.
//
// The sandbox runs as root, and root with CAP_DAC_OVERRIDE ignores permission bits, so "the work directory is removed
// whatever modes the script left behind" cannot fail there. This part re-executes the test binary from a thread whose
// capability bounding set lacks CAP_DAC_OVERRIDE, CAP_DAC_READ_SEARCH and CAP_FOWNER (uid 0 is kept: the process still
// owns its files and may chmod them, exactly like an ordinary user owning its work directory) and runs scripts that
// only change modes and then end in one of the four ways. No outcome of a script line needs to be predicted: whatever
// the verdict, nothing may be left under the private GOTMPDIR afterwards.

import (
	"encoding/json"
	"fmt"
	"os"
	"os/exec"
	"path/filepath"
	"runtime"
	"strings"
	"syscall"
	"testing"
	"time"

	"pgregory.net/rapid"

	"verif/tskit"
	"verif/vt"
)

type chmodStep struct {
	Path string `json:"path"`
	Mode string `json:"mode"`
}

type permCase struct {
	Steps []chmodStep `json:"steps"`
	End   string      `json:"end"`   // pass | stop | skip | fail
	Other bool        `json:"other"` // a second, ordinary script shares the temporary root
}

const permArchive = "-- sub/a.txt --\na\n-- sub/deep/b.txt --\nb\n-- sub/deep/er/c.txt --\nc\n-- other/d.txt --\nd\n-- top.txt --\nt\n"

var permPaths = []string{"sub", "sub/deep", "sub/deep/er", "other", "sub/a.txt", "top.txt", "sub/deep/er/c.txt"}
var permModes = []string{"000", "200", "300", "400", "500", "600", "644", "555", "444", "111", "700", "311"}

func (c permCase) script() string {
	var b strings.Builder
	for _, s := range c.Steps {
		fmt.Fprintf(&b, "chmod %s %s\n", s.Mode, s.Path)
	}
	switch c.End {
	case "stop":
		b.WriteString("stop 'enough'\n")
	case "skip":
		b.WriteString("skip 'not here'\n")
	case "fail":
		b.WriteString("exists no-such-file\n")
	}
	return b.String() + permArchive
}

func validPerm(c permCase) bool {
	if len(c.Steps) > 8 {
		return false
	}
	for _, s := range c.Steps {
		okp, okm := false, false
		for _, p := range permPaths {
			okp = okp || p == s.Path
		}
		for _, m := range permModes {
			okm = okm || m == s.Mode
		}
		if !okp || !okm {
			return false
		}
	}
	return c.End == "pass" || c.End == "stop" || c.End == "skip" || c.End == "fail"
}

// innerNoCaps runs in the re-executed process: one case from the environment, result on stdout.
func innerNoCaps() {
	var c permCase
	if err := json.Unmarshal([]byte(os.Getenv("VERIF_C04_PERMCASE")), &c); err != nil || !validPerm(c) {
		fmt.Println("RESULT skip bad case")
		return
	}
	// permission bits must really be enforced here, otherwise the run says nothing
	probe := filepath.Join(os.Getenv("VERIF_C04_PERMROOT"), "probe")
	os.MkdirAll(filepath.Join(probe, "d"), 0o777)
	os.Chmod(probe, 0o000)
	_, perr := os.ReadDir(probe)
	os.Chmod(probe, 0o777)
	os.RemoveAll(probe)
	if perr == nil {
		fmt.Println("RESULT skip permission bits are not enforced for this process")
		return
	}
	root := os.Getenv("VERIF_C04_PERMROOT")
	gotmp := filepath.Join(root, "gotmp")
	os.MkdirAll(gotmp, 0o777)
	os.Setenv("GOTMPDIR", gotmp)
	files := []tskit.ScriptFile{{Name: "modes", Data: []byte(c.script())}}
	if c.Other {
		files = append(files, tskit.ScriptFile{Name: "plain", Data: []byte("exists x\n-- x --\nx\n")})
	}
	rr := tskit.RunInProcess(root, files, tskit.RunOpts{Parallel: true, Deadline: 30 * time.Second})
	var left []string
	filepath.Walk(gotmp, func(p string, info os.FileInfo, err error) error {
		if p != gotmp {
			left = append(left, strings.TrimPrefix(p, gotmp+"/"))
		}
		return nil
	})
	verdict := "?"
	if len(rr.Subs) > 0 {
		verdict = rr.Subs[0].Verdict
	}
	if len(left) > 8 {
		left = left[:8]
	}
	if len(left) > 0 {
		fmt.Printf("RESULT left verdict=%s %s\n", verdict, strings.Join(left, " "))
		return
	}
	fmt.Printf("RESULT clean verdict=%s\n", verdict)
}

var noCapsUnavailable bool

func checkPerm(c permCase) *vt.Fail {
	if !validPerm(c) || noCapsUnavailable {
		return nil
	}
	root := tskit.Scratch("c04perm")
	defer tskit.RemoveAll(root)
	exe, err := os.Executable()
	if err != nil {
		return nil
	}
	cj, _ := json.Marshal(c)
	type result struct {
		out []byte
		err error
	}
	done := make(chan result, 1)
	go func() {
		// the bounding set is per thread and inherited over fork/exec: drop on a locked thread that is thrown away
		runtime.LockOSThread()
		if os.Geteuid() == 0 {
			for _, capability := range []uintptr{1 /* CAP_DAC_OVERRIDE */, 2 /* CAP_DAC_READ_SEARCH */, 3 /* CAP_FOWNER */} {
				if _, _, errno := syscall.Syscall(syscall.SYS_PRCTL, 24 /* PR_CAPBSET_DROP */, capability, 0); errno != 0 {
					done <- result{nil, errno}
					return
				}
			}
		}
		cmd := exec.Command(exe, "-test.run=^$")
		cmd.Env = append(os.Environ(), "VERIF_ROLE=c04-nocaps-inner", "VERIF_C04_PERMCASE="+string(cj), "VERIF_C04_PERMROOT="+root)
		out, err := cmd.CombinedOutput()
		done <- result{out, err}
	}()
	var r result
	select {
	case r = <-done:
	case <-time.After(90 * time.Second):
		rec.Infra("the permission-enforcing child did not finish within 90 s")
		return nil
	}
	if r.out == nil && r.err != nil {
		noCapsUnavailable = true
		rec.Infra("cannot drop CAP_DAC_OVERRIDE from the bounding set (%v): cleanup under enforced permission bits not exercised", r.err)
		return nil
	}
	line := ""
	for _, l := range strings.Split(string(r.out), "\n") {
		if strings.HasPrefix(l, "RESULT ") {
			line = strings.TrimPrefix(l, "RESULT ")
		}
	}
	switch {
	case strings.HasPrefix(line, "clean"):
		lastPermVerdict = strings.TrimPrefix(line, "clean verdict=")
		return nil
	case strings.HasPrefix(line, "skip"):
		noCapsUnavailable = true
		rec.Infra("permission-enforcing child: %s", line)
		return nil
	case strings.HasPrefix(line, "left"):
		return vt.Failf("temp-root-not-removed", "with permission bits enforced (no CAP_DAC_OVERRIDE), after a script that only changed modes and ended (%s) the private GOTMPDIR still holds: %s\nscript:\n%s", c.End, strings.TrimPrefix(line, "left "), strings.Split(c.script(), "-- sub/a.txt")[0])
	}
	rec.Infra("permission-enforcing child gave no result: %v %s", r.err, trunc(string(r.out), 400))
	return nil
}

var lastPermVerdict string

func genPerm(t *rapid.T) permCase {
	c := permCase{End: rapid.SampledFrom([]string{"pass", "stop", "skip", "fail"}).Draw(t, "end"), Other: rapid.Bool().Draw(t, "other")}
	for i, n := 0, rapid.IntRange(1, 5).Draw(t, "nsteps"); i < n; i++ {
		c.Steps = append(c.Steps, chmodStep{Path: rapid.SampledFrom(permPaths).Draw(t, "path"), Mode: rapid.SampledFrom(permModes).Draw(t, "mode")})
	}
	return c
}

func TestCleanupWithPermissionsEnforced(t *testing.T) {
	vt.Run(t, rec, vt.Prop[permCase]{Kind: "perm", Gen: genPerm, Check: checkPerm, Meta: func(c permCase) vt.Meta {
		unsearchable := false
		for _, s := range c.Steps {
			if !strings.Contains(s.Path, ".txt") && (s.Mode[0] == '0' || s.Mode[0] == '2' || s.Mode[0] == '4' || s.Mode[0] == '6') {
				unsearchable = true
			}
		}
		cl := []string{"end=" + c.End, "script-verdict=" + lastPermVerdict}
		if unsearchable {
			cl = append(cl, "directory-left-unsearchable")
		}
		return vt.Meta{NonTrivial: unsearchable && !noCapsUnavailable, Classes: cl}
	}}, vt.N(40, 400))
}
