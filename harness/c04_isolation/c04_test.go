package c04

import (
	"fmt"
	"os"
	"os/exec"
	"path/filepath"
	"reflect"
	"sort"
	"strings"
	"sync"
	"testing"
	"time"

	"github.com/rogpeppe/go-internal/testscript"
	"pgregory.net/rapid"

	"verif/tsgen"
	"verif/tskit"
	"verif/tsmodel"
	"verif/vt"
)

var rec = vt.New("C04")

func TestMain(m *testing.M) {
	if os.Getenv("VERIF_ROLE") == "c04-nocaps-inner" {
		innerNoCaps()
		return
	}
	testscript.Main(tskit.MainWrapper{M: m, After: rec.Flush}, tskit.Commands())
}

type batchCase struct {
	Scripts []tsgen.Script `json:"scripts"`
	// FileNames optionally gives the script file of each script relative to the script directory (without .txt),
	// e.g. "a/job", "b/job", "c/job#1": equal base names make RunT invent distinct subtest names.
	FileNames []string       `json:"file_names,omitempty"`
	Mode      string         `json:"mode"` // default | testwork | workdirroot
	Cover     bool           `json:"gocoverdir"`
	Race      bool           `json:"gorace"`
	P         tsmodel.Params `json:"params"`
}

var envMu sync.Mutex

// setupPlan travels with a script as the archive file zz_setup_plan: what Params.Setup does for that script
// (register n deferred functions through Env.Defer, then optionally fail).
type setupPlan struct {
	Defers int
	Fail   string   // "" | error | fatal
	Vars   []string // K=V additions made by Setup (Env.Setenv for even positions, appended to Env.Vars for odd ones)
	// DeferFatal (fail=deferfatal): Setup succeeds, but the deferred function it registered last ends the run with
	// T.FailNow after recording itself: the functions registered before it must still run, and the run counts as failed
	DeferFatal bool
}

const planFile = "zz_setup_plan"

func planOf(files []tsmodel.ArchiveFile) setupPlan {
	var p setupPlan
	for _, f := range files {
		if f.Name == planFile {
			var vars string
			fmt.Sscanf(f.Data, "defers=%d fail=%s vars=%s", &p.Defers, &p.Fail, &vars)
			for _, kv := range strings.Split(vars, ",") {
				if strings.Contains(kv, "=") {
					p.Vars = append(p.Vars, kv)
				}
			}
		}
	}
	if p.Fail == "-" {
		p.Fail = ""
	}
	if p.Fail == "deferfatal" {
		p.Fail = ""
		p.DeferFatal = p.Defers > 0
	}
	return p
}

func (p setupPlan) tags() []string {
	var t []string
	for i := p.Defers - 1; i >= 0; i-- {
		t = append(t, fmt.Sprintf("setup-%d", i))
	}
	return t
}

type info struct {
	collide, midway, leftover, setupFail bool
}

var last info

func setenv(k, v string, on bool) {
	if on {
		os.Setenv(k, v)
	} else {
		os.Unsetenv(k)
	}
}

func names(c batchCase) []string {
	var ns []string
	for i := range c.Scripts {
		ns = append(ns, fmt.Sprintf("s%d", i))
	}
	return ns
}

func checkBatch(c batchCase) *vt.Fail {
	last = info{}
	if len(c.Scripts) == 0 || len(c.Scripts) > 16 {
		return nil
	}
	c.P.CustomCmds = true
	for _, s := range c.Scripts {
		if !s.Representable() {
			return nil
		}
		// never run what the model abstains on (it may hang)
		if pre := tsmodel.New(c.P, tsmodel.Host{WorkAbs: "/WORKDIR", Path: os.Getenv("PATH"), SetupEnv: planOf(s.Files).Vars}, s.Files).Run(s.Text); pre.Unmodelled != "" {
			return nil
		}
		for _, f := range strings.Fields(s.Text) {
			if strings.HasPrefix(f, "--pid=") {
				os.MkdirAll(filepath.Dir(strings.TrimPrefix(f, "--pid=")), 0o777)
			}
		}
	}
	if raceEnabled {
		c.Race = true // GORACE=atexit_sleep_ms=0 is passed through to the (race-instrumented) helpers
	}
	envMu.Lock()
	defer envMu.Unlock()
	// canaries: host variables that no script may see (set in the test process only, not in helper processes)
	os.Setenv("VERIF_CANARY_ONE", "host value 1")
	os.Setenv("CANARY_TWO", "host value 2")
	os.Setenv("GOFLAGS_CANARY", "x")
	root := tskit.Scratch("c04")
	defer tskit.RemoveAll(root)
	gotmp := filepath.Join(root, "gotmp")
	os.MkdirAll(gotmp, 0o777)
	os.Setenv("GOTMPDIR", gotmp)
	defer os.Unsetenv("GOTMPDIR")
	setenv("GOCOVERDIR", filepath.Join(root, "cover"), c.Cover)
	setenv("GORACE", "atexit_sleep_ms=0", c.Race)
	os.MkdirAll(filepath.Join(root, "cover"), 0o777)
	defer os.Unsetenv("GOCOVERDIR")
	defer os.Unsetenv("GORACE")
	extra := map[string]string{}
	if c.Cover {
		extra["GOCOVERDIR"] = filepath.Join(root, "cover")
	}
	if c.Race {
		extra["GORACE"] = "atexit_sleep_ms=0"
	}

	r := tskit.NewRecorder()
	var lmu sync.Mutex
	listings := map[string][]string{}
	tp := testscript.Params{ContinueOnError: c.P.ContinueOnError, RequireExplicitExec: c.P.RequireExplicitExec, RequireUniqueNames: c.P.RequireUniqueNames,
		Cmds: r.Cmds(), Setup: func(e *testscript.Env) error {
			var ls []string
			filepath.Walk(e.WorkDir, func(p string, info os.FileInfo, err error) error {
				if err == nil && p != e.WorkDir {
					rel, _ := filepath.Rel(e.WorkDir, p)
					if info.IsDir() {
						rel += "/"
					}
					ls = append(ls, rel)
				}
				return nil
			})
			sort.Strings(ls)
			lmu.Lock()
			listings[filepath.Base(e.WorkDir)] = ls
			lmu.Unlock()
			var plan setupPlan
			if b, err := os.ReadFile(filepath.Join(e.WorkDir, planFile)); err == nil {
				plan = planOf([]tsmodel.ArchiveFile{{Name: planFile, Data: string(b)}})
			}
			name := strings.TrimPrefix(filepath.Base(e.WorkDir), "script-")
			for i := 0; i < plan.Defers; i++ {
				tag := fmt.Sprintf("setup-%d", i)
				last := plan.DeferFatal && i == plan.Defers-1
				t := e.T()
				e.Defer(func() {
					r.RecordDefer(name, tag)
					if last {
						t.FailNow()
					}
				})
			}
			for i, kv := range plan.Vars {
				if k, v, _ := strings.Cut(kv, "="); i%2 == 0 {
					e.Setenv(k, v)
				} else {
					e.Vars = append(e.Vars, kv)
				}
			}
			switch plan.Fail {
			case "error":
				return fmt.Errorf("planned setup failure")
			case "fatal":
				e.T().Fatal("planned setup failure")
			}
			return nil
		}}
	if c.P.CustomCond {
		tp.Condition = tskit.Condition
	}
	opts := tskit.RunOpts{Params: tp, Parallel: true, Deadline: 40 * time.Second}
	switch c.Mode {
	case "testwork":
		opts.Params.TestWork = true
	case "workdirroot":
		opts.Retain = true
	}
	var files []tskit.ScriptFile
	usedFile := map[string]bool{}
	for i, s := range c.Scripts {
		fn := fmt.Sprintf("s%d", i)
		if i < len(c.FileNames) && validFileName(c.FileNames[i]) && !usedFile[c.FileNames[i]] {
			fn = c.FileNames[i]
		}
		usedFile[fn] = true
		ext, _ := tskit.LayoutFor(s.Bytes())
		files = append(files, tskit.ScriptFile{Name: fn, Data: s.Bytes(), Ext: ext})
	}
	_, opts.UseDir = tskit.LayoutFor(files[0].Data)
	rr := tskit.RunInProcess(root, files, opts)
	if rr.Elapsed > 30*time.Second {
		// Every script of the batch was accepted by the reference interpreter as one that ends by itself within
		// milliseconds. If one of them sat in a command until the safety deadline interrupted it although the machine is
		// responsive (a process round trip takes well under 100 ms), the script was blocked by something the run did.
		var blocked []string
		for _, sub := range rr.Subs {
			if strings.Contains(sub.Log, "test timed out while running command") {
				blocked = append(blocked, sub.Name)
			}
		}
		t0 := time.Now()
		exec.Command("/bin/true").Run()
		if probe := time.Since(t0); len(blocked) > 0 && probe < 100*time.Millisecond {
			var logs []string
			for _, sub := range rr.Subs {
				if strings.Contains(sub.Log, "test timed out while running command") && len(logs) < 2 {
					logs = append(logs, sub.Name+":\n"+sub.Log)
				}
			}
			return vt.Failf("script-blocked-until-deadline", "in a batch of %d short scripts, %v did not end by themselves: they sat in a command until the harness's safety deadline interrupted them after %v (machine responsive: process round trip %v)\n%s", len(c.Scripts), blocked, rr.Elapsed.Round(time.Second), probe.Round(time.Millisecond), strings.Join(logs, "\n"))
		}
		rec.Infra("a batch of %d short scripts took %v and only ended through the harness's safety deadline: are background processes no longer stopped when a script ends?", len(c.Scripts), rr.Elapsed.Round(time.Second))
		return nil
	}
	if rr.Top.Verdict != "pass" || len(rr.Subs) != len(c.Scripts) {
		return vt.Failf("runt-top-level", "RunT ended with %s (%s %s), %d subtests for %d scripts", rr.Top.Verdict, rr.Top.Log, rr.Top.Panic, len(rr.Subs), len(c.Scripts))
	}
	// subtests are started in file order; their names are chosen by RunT and must be pairwise distinct
	subNames := map[string]bool{}
	for _, s := range rr.Subs {
		if subNames[s.Name] {
			return vt.Failf("script-names-not-unique", "two scripts of one RunT call were given the same name %q (they would share a work directory)", s.Name)
		}
		subNames[s.Name] = true
	}
	// ---- (5) nothing left behind ----
	ents, _ := os.ReadDir(gotmp)
	switch c.Mode {
	case "default":
		if len(ents) != 0 {
			var left []string
			filepath.Walk(gotmp, func(p string, info os.FileInfo, err error) error {
				if p != gotmp {
					left = append(left, strings.TrimPrefix(p, gotmp+"/"))
				}
				return nil
			})
			if len(left) > 8 {
				left = left[:8]
			}
			return vt.Failf("temp-root-not-removed", "after the last script the private GOTMPDIR still holds %v", left)
		}
	case "testwork":
		if len(ents) != 1 {
			return vt.Failf("testwork-root-missing", "with TestWork the temporary root should be kept: GOTMPDIR holds %d entries", len(ents))
		}
		sub, _ := os.ReadDir(filepath.Join(gotmp, ents[0].Name()))
		var got []string
		for _, e := range sub {
			got = append(got, e.Name())
		}
		var want []string
		for _, s := range rr.Subs {
			want = append(want, "script-"+s.Name)
		}
		sort.Strings(got)
		sort.Strings(want)
		if !reflect.DeepEqual(got, want) {
			return vt.Failf("retained-dirs-differ", "with TestWork the root holds %v, expected %v", got, want)
		}
	case "workdirroot":
		if len(ents) != 0 {
			return vt.Failf("temp-root-not-removed", "with WorkdirRoot nothing should be created under GOTMPDIR, found %d entries", len(ents))
		}
		sub, _ := os.ReadDir(rr.WorkRoot)
		var got []string
		for _, e := range sub {
			got = append(got, e.Name())
		}
		var want []string
		for _, s := range rr.Subs {
			want = append(want, "script-"+s.Name)
		}
		sort.Strings(got)
		sort.Strings(want)
		if !reflect.DeepEqual(got, want) {
			return vt.Failf("retained-dirs-differ", "WorkdirRoot holds %v, expected %v", got, want)
		}
	}
	// ---- (4) no process left ----
	for _, s := range c.Scripts {
		for _, f := range strings.Fields(s.Text) {
			if strings.HasPrefix(f, "--pid=") {
				pf := strings.TrimPrefix(f, "--pid=")
				if b, err := os.ReadFile(pf); err == nil {
					if tskit.StillAlive(strings.TrimSpace(string(b))) {
						var pid int
						fmt.Sscan(string(b), &pid)
						if pid > 1 {
							if p, err := os.FindProcess(pid); err == nil {
								p.Kill() // do not leave it behind in the sandbox
							}
						}
						return vt.Failf("process-left-alive", "a background helper started by a script is still alive after RunT returned (%s)", strings.TrimSpace(string(b)))
					}
					last.leftover = true
					os.Remove(pf)
				}
			}
		}
	}
	// ---- per script: same result as alone, fresh start ----
	relUse := map[string]int{}
	for i, s := range c.Scripts {
		sub := rr.Subs[i]
		name := sub.Name
		std := r.Std[name]
		work := ""
		var dump map[string]string
		if len(std) > 0 {
			dump = parseDump(std[0])
			work = dump["WORK"]
		}
		if len(name) >= 249 {
			// a work directory with so long a name (script-<name>) cannot be created: the script fails before Setup and
			// before its first line
			if sub.Verdict != "fail" || len(std) > 0 || len(r.Probes[name]) > 0 || len(r.Defers[name]) > 0 {
				return vt.Failf("verdict-differs-from-alone", "script with a %d-byte name: its work directory cannot be created, yet it was reported %s and ran something (%d probes, defers %v)\nlog:\n%s", len(name), sub.Verdict, len(r.Probes[name]), r.Defers[name], trunc(sub.Log, 600))
			}
			continue
		}
		plan := planOf(s.Files)
		if plan.Fail != "" {
			// Setup failed after registering its deferred functions: the run ended as failed, and they must still have run
			last.midway = true
			last.setupFail = true
			ctx := fmt.Sprintf("\nbatch of %d scripts (mode %s); script %s, whose Setup registered %d deferred functions and then failed (%s)\nlog:\n%s", len(c.Scripts), c.Mode, name, plan.Defers, plan.Fail, trunc(sub.Log, 800))
			if sub.Verdict != "fail" {
				return vt.Failf("verdict-differs-from-alone", "script %s was reported %s although its Setup failed%s", name, sub.Verdict, ctx)
			}
			if len(std) > 0 || len(r.Probes[name]) > 0 {
				return vt.Failf("probes-differ-from-alone", "script %s ran lines although its Setup failed%s", name, ctx)
			}
			if !reflect.DeepEqual(r.Defers[name], plan.tags()) && plan.Defers > 0 {
				return vt.Failf("defers-wrong-order", "script %s: deferred functions ran as %v, expected %v (reverse registration order)%s", name, r.Defers[name], plan.tags(), ctx)
			}
			continue
		}
		if work == "" {
			if sub.Verdict == "fail" && strings.Contains(sub.Log, "RequireUniqueNames") {
				continue // setup failed before the first line
			}

			return vt.Failf("no-environment-dump", "script %s did not get to report its environment (verdict %s)\n%s", name, sub.Verdict, trunc(sub.Log, 600))
		}
		h := tsmodel.Host{WorkAbs: work, Path: os.Getenv("PATH"), Short: testing.Short(), Extra: extra, SetupEnv: plan.Vars}
		m := tsmodel.New(c.P, h, s.Files)
		startEnv := m.Env()
		var wantList []string
		for _, p := range m.Paths("") {
			if n := m.NodeAt(p); n != nil && n.Kind == "dir" {
				wantList = append(wantList, p+"/")
			} else {
				wantList = append(wantList, p)
			}
		}
		wantList = append(wantList, ".tmp/")
		sort.Strings(wantList)
		want := m.Run(s.Text)
		if want.Unmodelled != "" {
			continue
		}
		ctx := fmt.Sprintf("\nbatch of %d scripts (mode %s); script %s:\n%s\nlog:\n%s", len(c.Scripts), c.Mode, name, s.Text, trunc(sub.Log, 1200))
		// fresh environment: exactly the documented variables (+ PWD), no host variable leaks in
		wantEnv := map[string]string{}
		for k, v := range startEnv {
			wantEnv[k] = v
		}
		wantEnv["PWD"] = work
		if !reflect.DeepEqual(dump, wantEnv) {
			return vt.Failf("environment-not-fresh", "script %s starts with environment %v, expected exactly %v%s", name, diffEnv(dump, wantEnv), "the documented variables", ctx)
		}
		// fresh directory: exactly the archive's files
		if got := listings["script-"+name]; !reflect.DeepEqual(got, wantList) {
			return vt.Failf("workdir-not-fresh", "script %s starts with files %v, its archive gives %v%s", name, got, wantList, ctx)
		}
		if sub.Verdict == "panic" {
			return vt.Failf("panic-escaped-runt", "%s%s", sub.Panic, ctx)
		}
		if plan.DeferFatal {
			// whatever the lines did, a deferred function failed the run
			if want.Verdict != "fail" {
				want.Verdict, want.SetupFail = "fail", true
			}
		}
		if sub.Verdict != want.Verdict {
			return vt.Failf("verdict-differs-from-alone", "in the batch script %s was reported %s, evaluated alone it is %s (failing lines %v %v)%s", name, sub.Verdict, want.Verdict, want.FailLines, want.FailClass, ctx)
		}
		if want.Verdict == "fail" && !want.SetupFail {
			got, _ := tskit.FailLines(sub.Log, rr.Files[i])
			if !reflect.DeepEqual(got, want.FailLines) {
				return vt.Failf("failing-lines-differ-from-alone", "script %s: failing lines %v, alone %v%s", name, got, want.FailLines, ctx)
			}
		}
		gp := r.Probes[name]
		if len(gp) != len(want.Probes) {
			return vt.Failf("probes-differ-from-alone", "script %s: probe ran %d times (%v), alone %d times (%v)%s", name, len(gp), gp, len(want.Probes), want.Probes, ctx)
		}
		for j := range gp {
			if gp[j].Cwd != want.Probes[j].Cwd || !reflect.DeepEqual(gp[j].Args, want.Probes[j].Args) {
				return vt.Failf("probes-differ-from-alone", "script %s: probe #%d saw %+v, alone %+v%s", name, j, gp[j], want.Probes[j], ctx)
			}
		}
		if !reflect.DeepEqual(r.Envs[name], want.Envs) && len(r.Envs[name])+len(want.Envs) > 0 {
			return vt.Failf("variables-differ-from-alone", "script %s: getenv saw %v, alone %v%s", name, r.Envs[name], want.Envs, ctx)
		}
		// (3) defers in reverse order on every exit path
		wantDefers := append(append([]string{}, want.Defers...), plan.tags()...)
		if !reflect.DeepEqual(r.Defers[name], wantDefers) && len(r.Defers[name])+len(wantDefers) > 0 {
			return vt.Failf("defers-wrong-order", "script %s: deferred functions ran as %v, expected %v (reverse registration order, Setup's first registered last run)%s", name, r.Defers[name], wantDefers, ctx)
		}
		if c.Mode != "default" {
			tree := tskit.Snapshot(work, ".tmp")
			for k, w := range want.Tree {
				g, ok := tree[k]
				if !ok || g.Kind != w.Kind || (w.Kind == "file" && g.Data != w.Data) {
					return vt.Failf("tree-differs-from-alone", "script %s: retained work directory entry %q is %+v, alone it would be %+v%s", name, k, g, w, ctx)
				}
			}
			for k := range tree {
				if _, ok := want.Tree[k]; !ok {
					return vt.Failf("tree-differs-from-alone", "script %s: retained work directory has %q which the script alone would not create%s", name, k, ctx)
				}
			}
		}
		for k := range want.Tree {
			relUse[k]++
		}
		if want.Verdict != "pass" || strings.Contains(s.Text, "\nstop") || want.Background > 0 {
			last.midway = true
		}
	}
	for _, n := range relUse {
		if n >= 2 {
			last.collide = true
		}
	}
	return nil
}

func parseDump(out string) map[string]string {
	m := map[string]string{}
	for _, l := range strings.Split(strings.TrimSuffix(out, "\n"), "\n") {
		var kv string
		if _, err := fmt.Sscanf(l, "%q", &kv); err != nil {
			continue
		}
		if i := strings.Index(kv, "="); i >= 0 {
			m[kv[:i]] = kv[i+1:]
		}
	}
	return m
}

func diffEnv(got, want map[string]string) string {
	var ds []string
	for k, v := range got {
		if w, ok := want[k]; !ok {
			ds = append(ds, fmt.Sprintf("extra %s=%q", k, v))
		} else if w != v {
			ds = append(ds, fmt.Sprintf("%s=%q (expected %q)", k, v, w))
		}
	}
	for k := range want {
		if _, ok := got[k]; !ok {
			ds = append(ds, "missing "+k)
		}
	}
	sort.Strings(ds)
	return strings.Join(ds, "; ")
}

func trunc(s string, n int) string {
	if len(s) > n {
		return s[:n] + "..."
	}
	return s
}

func validFileName(n string) bool {
	if n == "" || strings.HasPrefix(n, "/") || strings.Contains(n, "..") || strings.ContainsAny(n, " \t\n$'") {
		return false
	}
	return true
}

func pidDir() string {
	d := filepath.Join(os.TempDir(), fmt.Sprintf("c04pids-%d", os.Getpid()))
	if s := os.Getenv("VERIF_SCRATCH"); s != "" {
		d = filepath.Join(s, "c04pids")
	}
	os.MkdirAll(d, 0o777)
	return d
}

func genBatch(t *rapid.T) batchCase {
	c := batchCase{Mode: rapid.SampledFrom([]string{"default", "default", "testwork", "workdirroot"}).Draw(t, "mode"), Cover: rapid.IntRange(0, 3).Draw(t, "cover") == 0, Race: rapid.IntRange(0, 3).Draw(t, "race") == 0}
	c.P = tsmodel.Params{CustomCmds: true, CustomCond: rapid.Bool().Draw(t, "customcond"), ContinueOnError: rapid.IntRange(0, 4).Draw(t, "continue") == 0,
		RequireExplicitExec: rapid.IntRange(0, 5).Draw(t, "explicit") == 0}
	n := rapid.IntRange(2, 10).Draw(t, "nscripts")
	o := tsgen.Options{MaxLines: 14, FailProb: 35, Exec: true, Background: true, Custom: true, FixedParams: &c.P, PidDir: pidDir(), Prologue: []string{"exec vmain dumpenv", "recstd"}, AllowChmod2: true,
		ExtraKinds: []string{"cd", "cd", "cd", "cd", "mkdir", "mkdir", "exists", "exists", "env", "cp", "probe", "probe", "exec", "bg", "bg", "bg", "bgwait", "bgwait", "wait", "bgend", "bgend", "bgmix", "bgmix", "bgdup", "bgdup"}}
	for i := 0; i < n; i++ {
		if rapid.IntRange(0, 5).Draw(t, "pathtemplate") == 0 {
			// scripts that differ in whether zzprog is on their PATH
			a := tsgen.Script{Name: "s", P: c.P, Files: []tsmodel.ArchiveFile{{Name: "bin/zzprog", Data: "#!/bin/sh\n"}},
				Text: "exec vmain dumpenv\nrecstd\nchmod 755 bin/zzprog\nenv PATH=$WORK/bin${:}$PATH\n[exec:zzprog] probe has-zzprog\n[!exec:zzprog] probe no-zzprog\n"}
			b := tsgen.Script{Name: "s", P: c.P, Text: "exec vmain dumpenv\nrecstd\n[exec:zzprog] probe has-zzprog\n[!exec:zzprog] probe no-zzprog\n"}
			if rapid.Bool().Draw(t, "order") {
				a, b = b, a
			}
			c.Scripts = append(c.Scripts, a, b)
			i++
			continue
		}
		sc := tsgen.Gen(t, o)
		if rapid.IntRange(0, 2).Draw(t, "setupplan") == 0 {
			vars := rapid.SliceOfN(rapid.SampledFrom([]string{"SETUP_A=1", "SETUP_B=x_y", "HOME=/setup/home", "SETUP_A=2", "CANARY_TWO=from-setup", "TMPDIR=/setup/tmp"}), 0, 3).Draw(t, "setupvars")
			sc.Files = append(sc.Files, tsmodel.ArchiveFile{Name: planFile, Data: fmt.Sprintf("defers=%d fail=%s vars=%s\n", rapid.IntRange(0, 3).Draw(t, "setupdefers"),
				rapid.SampledFrom([]string{"-", "-", "error", "fatal", "deferfatal"}).Draw(t, "setupfail"), strings.Join(vars, ","))})
		}
		c.Scripts = append(c.Scripts, sc)
	}
	if c.Mode == "default" && len(c.Scripts) >= 2 && rapid.IntRange(0, 5).Draw(t, "longname") == 4 {
		// one script whose name is too long for its work directory (script-<name>) to be created: it fails before its
		// first line, the others are not disturbed, and nothing is left under the temporary root
		c.FileNames = make([]string, len(c.Scripts))
		c.FileNames[rapid.IntRange(0, len(c.Scripts)-1).Draw(t, "longat")] = strings.Repeat("n", 249)
		return c
	}
	if rapid.IntRange(0, 2).Draw(t, "samebase") == 0 {
		// scripts in different directories with equal (or counter-like) base names
		bases := []string{"job", "job#1", "job", "x", "job#1#1", "job#2"}
		for i := range c.Scripts {
			c.FileNames = append(c.FileNames, fmt.Sprintf("d%d/%s", i, rapid.SampledFrom(bases).Draw(t, "base")))
		}
	}
	return c
}

// dupBackground: some name is given to two background commands of the script (line shape bgdup, or by chance).
func dupBackground(text string) bool {
	seen := map[string]bool{}
	for _, l := range strings.Split(text, "\n") {
		f := strings.Fields(l)
		if len(f) == 0 {
			continue
		}
		last := f[len(f)-1]
		if len(last) > 2 && strings.HasPrefix(last, "&") && strings.HasSuffix(last, "&") {
			if seen[last] {
				return true
			}
			seen[last] = true
		}
	}
	return false
}

func TestBatches(t *testing.T) {
	vt.Run(t, rec, vt.Prop[batchCase]{Kind: "batch", Gen: genBatch, Check: checkBatch, Meta: func(c batchCase) vt.Meta {
		cl := []string{"mode=" + c.Mode}
		if last.collide {
			cl = append(cl, "colliding-paths")
		}
		if last.midway {
			cl = append(cl, "ends-midway-or-background")
		}
		if last.leftover {
			cl = append(cl, "background-left-running")
		}
		if last.setupFail {
			cl = append(cl, "setup-fails-after-defer")
		}
		for _, s := range c.Scripts {
			if dupBackground(s.Text) {
				cl = append(cl, "background-name-still-on-the-list")
				break
			}
		}
		return vt.Meta{NonTrivial: last.collide && last.midway, Classes: cl}
	}, Reduce: func(c batchCase) []batchCase {
		var out []batchCase
		for _, ss := range vt.DropOne(c.Scripts) {
			d := c
			d.Scripts = ss
			out = append(out, d)
		}
		return out
	}}, vt.N(150, 600))
}

var replayers = vt.Replayer{"batch": vt.Decode(checkBatch), "perm": vt.Decode(checkPerm)}

func TestReplay(t *testing.T) { vt.Replay(t, rec, replayers) }
