//go:build race

package c04

// raceEnabled: the helper programs are copies of this (race-instrumented) test binary; without
// GORACE=atexit_sleep_ms=0 every helper process sleeps one second at exit.
const raceEnabled = true
