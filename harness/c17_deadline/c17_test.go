package c17

import (
	"fmt"
	"os"
	"os/exec"
	"os/signal"
	"path/filepath"
	"strings"
	"sync"
	"syscall"
	"testing"
	"time"

	"github.com/rogpeppe/go-internal/testscript"
	"pgregory.net/rapid"

	"verif/tskit"
	"verif/vt"
)

var rec = vt.New("C17")

func TestMain(m *testing.M) {
	// Children inherit an ignored SIGQUIT across exec (Go programs re-install their own handler, so the Go helpers are
	// not affected): this is how the "ignore-quit-inherited" scripts get a command that ignores the interrupt from its
	// very first instruction, without the start-up window of a helper that has to install a handler first.
	// (Not in the helper commands themselves - they are this binary under another name and run TestMain too: a helper
	// that is meant to exit on the interrupt must not ignore it.)
	cmds := tskit.Commands()
	if _, helper := cmds[filepath.Base(os.Args[0])]; !helper {
		signal.Ignore(syscall.SIGQUIT)
	}
	testscript.Main(tskit.MainWrapper{M: m, After: rec.Flush}, cmds)
}

type scriptSpec struct {
	Kind   string `json:"kind"`    // early | block | ignore-quit | sleep-edge
	Neg    bool   `json:"neg"`     // "! exec ..." on the blocking line
	EdgeMS int    `json:"edge_ms"` // sleep-edge: offset in ms relative to the interrupt (kind "sleep-edge") time D-2g
	AtKill bool   `json:"at_kill"` // sleep-edge relative to D-g instead
	Before int    `json:"before"`  // lines before the blocking one (0-2)
}

type dlCase struct {
	DeadlineMS int          `json:"deadline_ms"`
	Scripts    []scriptSpec `json:"scripts"`
	// Sequential runs the scripts one after the other (a T whose Run does not return before the subtest is done,
	// like the standalone command's): later scripts start when part of the time budget is already used up.
	Sequential bool `json:"sequential,omitempty"`
	// KeepWork: the work directories are kept (Params.WorkdirRoot) - the end of a script then takes another path
	// through RunT's bookkeeping of the shared deadline context
	KeepWork bool `json:"keep_work,omitempty"`
}

var immutableOnce sync.Once
var immutableOK bool

// immutableWorks reports whether chattr +i makes a file undeletable here (needs root and a file system with attributes).
func immutableWorks() bool {
	immutableOnce.Do(func() {
		d := tskit.Scratch("c17imm")
		defer os.RemoveAll(d)
		os.MkdirAll(d, 0o777)
		f := filepath.Join(d, "f")
		if os.WriteFile(f, []byte("x"), 0o666) != nil {
			return
		}
		if exec.Command("chattr", "+i", f).Run() != nil {
			return
		}
		immutableOK = os.Remove(f) != nil
		exec.Command("chattr", "-i", f).Run()
	})
	return immutableOK
}

func grace(d time.Duration) time.Duration {
	g := 100 * time.Millisecond
	if gp := d / 20; gp > g {
		g = gp
	}
	return g
}

type obs struct {
	blocked bool
}

var last obs

// loadProbe measures one helper round trip; a slow machine makes the (soft) upper bounds meaningless.
func loadProbe() time.Duration {
	t0 := time.Now()
	exec.Command("/bin/true").Run()
	return time.Since(t0)
}

func runCase(c dlCase) (fail *vt.Fail, soft string) {
	D := time.Duration(c.DeadlineMS) * time.Millisecond
	g := grace(D)
	root := tskit.Scratch("c17")
	defer tskit.RemoveAll(root)
	for _, sc := range c.Scripts {
		if sc.Kind == "immutable" {
			if !immutableWorks() {
				return nil, "" // this file system (or this user) cannot make a file undeletable: not exercised
			}
			// afterwards: lift the flag and remove what testscript could not (its temporary root lives in GOTMPDIR / TMPDIR)
			defer func() {
				tmp := os.Getenv("GOTMPDIR")
				if tmp == "" {
					tmp = os.TempDir()
				}
				left, _ := filepath.Glob(filepath.Join(tmp, "go-test-script*"))
				for _, d := range append(left, root) {
					exec.Command("chattr", "-R", "-i", d).Run()
				}
				for _, d := range left {
					os.RemoveAll(d)
				}
			}()
		}
	}
	pids := filepath.Join(root, "pids")
	os.MkdirAll(pids, 0o777)
	var files []tskit.ScriptFile
	type exp struct {
		kind      string
		blockLine int
		pidfile   string
		extraPid  string
	}
	var exps []exp
	for i, s := range c.Scripts {
		var lines []string
		for k := 0; k < s.Before; k++ {
			lines = append(lines, fmt.Sprintf("probe before%d", k))
		}
		pf := filepath.Join(pids, fmt.Sprintf("p%d", i))
		neg := ""
		if s.Neg {
			neg = "! "
		}
		e := exp{kind: s.Kind, pidfile: pf}
		switch s.Kind {
		case "early":
			lines = append(lines, "exec vmain emit -o 'done\\n'", "stdout done")
		case "block":
			lines = append(lines, neg+"exec vmain block --pid="+pf)
		case "quit-exits-0":
			// the command takes the interrupt as a request to shut down and exits with status 0: it was stopped by the
			// deadline all the same
			lines = append(lines, neg+"exec vmain block --exit0-on-quit --pid="+pf)
		case "ignore-quit":
			lines = append(lines, neg+"exec vmain block --ignore-quit --pid="+pf)
		case "ignore-quit-inherited":
			lines = append(lines, neg+fmt.Sprintf("exec sh -c 'echo $$ >%s.tmp; mv %s.tmp %s; exec sleep 60'", pf, pf, pf))
		case "bg-wait":
			// two background commands and a bare wait that is executing when the deadline fires: the first dies on the
			// interrupt (so the wait notices the timeout); the second ignores that interrupt - background commands are
			// never force-killed - and goes away on the SIGINT that the end-of-script cleanup sends to every command still
			// on the list. Both give up by themselves some seconds after the deadline: an interrupt that arrives while a
			// helper is still starting up (this process ignores SIGQUIT, children inherit that until the Go runtime has
			// installed its handlers) is lost and never sent again, and the unchanged code then waits for the helper.
			pf2 := pf + "b"
			e.extraPid = pf2
			die := c.DeadlineMS + 8000
			lines = append(lines,
				fmt.Sprintf("exec vmain block --die-after=%d --pid=%s &", die, pf),
				fmt.Sprintf("exec vmain block --ignore-quit --exit-on-int --die-after=%d --ready=ready2 --pid=%s &", die, pf2),
				"exec vmain waitfile ready2",
				"wait")
		case "immutable":
			// the script ends at once, but its work directory cannot be removed (a file in it is immutable): cleaning up
			// fails, which must cost no time worth mentioning - the script finished long before the deadline
			lines = append(lines, "exec chattr +i keep.txt", "exec vmain emit -o 'done\\n'", "stdout done")
		case "orphan-pipe":
			// the command itself exits at once but leaves a descendant holding its output pipes until a moment between the
			// interrupt time and the deadline: when the interrupt is due there is no process left to signal, and the wait
			// ends when the pipes close
			at := D - 2*g + g/2
			lines = append(lines, fmt.Sprintf("exec sh -c 'sleep %.3f &'", at.Seconds()))
		case "consume":
			// finishes by itself after using up a fraction of the budget (EdgeMS is the percentage of D)
			ms := int(D/time.Millisecond) * s.EdgeMS / 100
			lines = append(lines, fmt.Sprintf("exec vmain sleepms %d", ms))
		case "sleep-edge":
			at := D - 2*g
			if s.AtKill {
				at = D - g
			}
			ms := int((at + time.Duration(s.EdgeMS)*time.Millisecond) / time.Millisecond)
			if ms < 1 {
				ms = 1
			}
			lines = append(lines, fmt.Sprintf("exec vmain sleepms --pid=%s %d", pf, ms))
		default:
			return nil, ""
		}
		e.blockLine = len(lines)
		lines = append(lines, "probe after")
		exps = append(exps, e)
		text := strings.Join(lines, "\n") + "\n"
		if s.Kind == "immutable" {
			text += "-- keep.txt --\nkept\n"
		}
		files = append(files, tskit.ScriptFile{Name: fmt.Sprintf("s%d", i), Data: []byte(text)})
	}
	r := tskit.NewRecorder()
	type done struct{ rr tskit.RunResult }
	ch := make(chan done, 1)
	t0 := time.Now()
	go func() {
		rr := tskit.RunInProcess(root, files, tskit.RunOpts{Params: testscript.Params{Cmds: r.Cmds()}, Parallel: !c.Sequential, Deadline: D, Retain: c.KeepWork})
		ch <- done{rr}
	}()
	var rr tskit.RunResult
	select {
	case d := <-ch:
		rr = d.rr
	case <-time.After(D + 30*time.Second):
		// kill what we know about so the harness can go on
		for _, e := range exps {
			if b, err := os.ReadFile(e.pidfile); err == nil {
				var pid int
				fmt.Sscan(string(b), &pid)
				if pid > 1 {
					if p, err := os.FindProcess(pid); err == nil {
						p.Kill()
					}
				}
			}
		}
		return vt.Failf("did-not-stop", "RunT with a deadline %v away had not finished %v after the deadline", D, 30*time.Second), ""
	}
	total := time.Since(t0)
	if len(rr.Subs) != len(c.Scripts) {
		return vt.Failf("runt-top-level", "RunT: %s %s", rr.Top.Verdict, rr.Top.Log), ""
	}
	by := map[string]*tskit.SubResult{}
	for _, s := range rr.Subs {
		by[s.Name] = s
	}
	for i, e := range exps {
		name := fmt.Sprintf("s%d", i)
		sub := by[name]
		t := sub.End.Sub(t0)
		ctx := fmt.Sprintf(" (deadline %v, grace %v, script %s kind %s finished after %v with verdict %s)\n%s\nlog:\n%s", D, g, name, e.kind, t.Round(time.Millisecond), sub.Verdict, files[i].Data, trunc(sub.Log, 900))
		probes := r.Probes[name]
		ranAfter := false
		for _, p := range probes {
			if len(p.Args) == 1 && p.Args[0] == "after" {
				ranAfter = true
			}
		}
		// no child left behind
		for _, pf := range []string{e.pidfile, e.extraPid} {
			if pf == "" {
				continue
			}
			if b, err := os.ReadFile(pf); err == nil {
				if tskit.StillAlive(strings.TrimSpace(string(b))) {
					var pid int
					fmt.Sscan(string(b), &pid)
					if pid > 1 {
						if p, err := os.FindProcess(pid); err == nil {
							p.Kill() // do not leave it behind in the sandbox
						}
					}
					return vt.Failf("child-left-behind", "a process started by the script is still alive after RunT returned%s", ctx), ""
				}
			}
		}
		switch e.kind {
		case "early", "consume", "immutable":
			if sub.Verdict == "fail" && t >= D-2*g-20*time.Millisecond {
				if _, msgs := tskit.FailLines(sub.Log, rr.Files[i]); len(msgs) > 0 && strings.Contains(msgs[0], "timed out") {
					// on a busy machine even a short command can still be running when the interrupt is due:
					// then it did not "finish earlier" and being timed out is the documented outcome
					rec.Class("deadline:short-script-still-running-at-interrupt", 1)
					break
				}
			}
			if sub.Verdict != "pass" || !ranAfter {
				return vt.Failf("early-script-affected", "a script that finishes long before the deadline was reported %s (later line ran: %v)%s", sub.Verdict, ranAfter, ctx), ""
			}
		case "bg-wait":
			last.blocked = true
			if sub.Verdict != "fail" {
				return vt.Failf("blocked-script-not-failed", "a script blocked in wait at the deadline was reported %s%s", sub.Verdict, ctx), ""
			}
			if _, msgs := tskit.FailLines(sub.Log, rr.Files[i]); len(msgs) == 0 || !strings.Contains(msgs[0], "timed out") {
				return vt.Failf("no-timeout-message", "the log should carry a timed-out message, found %q%s", msgs, ctx), ""
			}
			if ranAfter {
				return vt.Failf("line-ran-after-timeout", "a line after the timed-out wait still ran%s", ctx), ""
			}
			if st := sub.Start.Sub(t0); st < D-2*g-50*time.Millisecond && t < D-2*g-20*time.Millisecond {
				return vt.Failf("stopped-too-early", "the waiting script was stopped after %v, before the interrupt time %v%s", t.Round(time.Millisecond), D-2*g, ctx), ""
			}
			if t > D+300*time.Millisecond && soft == "" {
				soft = fmt.Sprintf("the waiting script finished %v after the RunT call, later than the deadline %v%s", t.Round(time.Millisecond), D, ctx)
			}
		case "block", "quit-exits-0", "ignore-quit", "ignore-quit-inherited":
			last.blocked = true
			if sub.Verdict != "fail" {
				return vt.Failf("blocked-script-not-failed", "a script blocked in a foreground command at the deadline was reported %s%s", sub.Verdict, ctx), ""
			}
			lines, msgs := tskit.FailLines(sub.Log, rr.Files[i])
			if len(lines) == 0 || lines[0] != e.blockLine || !strings.Contains(msgs[0], "timed out") {
				return vt.Failf("no-timeout-message", "the log should name line %d with a timed-out message, found lines %v messages %q%s", e.blockLine, lines, msgs, ctx), ""
			}
			if ranAfter {
				return vt.Failf("line-ran-after-timeout", "a line after the timed-out command still ran%s", ctx), ""
			}
			// a script that only starts after the interrupt time (sequential T, an earlier script used up the budget)
			// is interrupted as soon as its command runs and killed one grace period after that
			intr, slack, late := D-2*g, time.Duration(0), false
			if st := sub.Start.Sub(t0); st > intr-50*time.Millisecond {
				late = true
				if st > intr {
					intr = st
				}
				slack = 300 * time.Millisecond
				rec.Class("deadline:script-started-after-interrupt-time", 1)
			}
			lower := intr - 20*time.Millisecond
			switch {
			case e.kind == "ignore-quit-inherited":
				lower = intr + g - 20*time.Millisecond
			case e.kind == "ignore-quit" && !late && !strings.Contains(sub.Log, "SIGQUIT: quit"):
				// (a Go helper has to install its handler first: if the interrupt arrives before that - the log shows
				// the runtime's SIGQUIT dump, or the script only started around the interrupt time - it counts as
				// interruptible)
				lower = intr + g - 20*time.Millisecond
			}
			if t < lower {
				return vt.Failf("stopped-too-early", "the blocked command was stopped after %v, before the documented time %v%s", t.Round(time.Millisecond), lower, ctx), ""
			}
			// a helper that exits on the interrupt shows the runtime's SIGQUIT dump in the script log and is gone well before
			// the kill time: a command that had to be force-killed although it does not ignore the interrupt was never
			// interrupted (soft: the interrupt may have arrived while the helper was still starting up)
			if e.kind == "block" && !late && soft == "" && !strings.Contains(sub.Log, "SIGQUIT: quit") && t >= intr+g-20*time.Millisecond {
				soft = fmt.Sprintf("a command that exits on the interrupt was only stopped at the kill time (%v, interrupt due at %v, kill at %v) and its output shows no interrupt%s", t.Round(time.Millisecond), intr, intr+g, ctx)
			}
			if t > D+slack && t > intr+g+slack && soft == "" {
				soft = fmt.Sprintf("the blocked script finished %v after the RunT call, later than the deadline %v (interrupt is due at %v, kill at %v)%s", t.Round(time.Millisecond), D, intr, intr+g, ctx)
			}
		case "sleep-edge", "orphan-pipe":
			// either verdict; if it failed it must carry the timeout message, and nothing may be left behind
			if sub.Verdict == "fail" {
				_, msgs := tskit.FailLines(sub.Log, rr.Files[i])
				if len(msgs) == 0 || !strings.Contains(msgs[0], "timed out") {
					return vt.Failf("no-timeout-message", "a command ending around the interrupt failed without a timed-out message: %q%s", msgs, ctx), ""
				}
			} else if sub.Verdict != "pass" {
				return vt.Failf("edge-script-odd-verdict", "verdict %s%s", sub.Verdict, ctx), ""
			}
		}
	}
	if total > max(D, 0)+2*time.Second+g && soft == "" {
		soft = fmt.Sprintf("RunT and its subtests took %v for a deadline %v away", total.Round(time.Millisecond), D)
	}
	return nil, soft
}

func checkDeadline(c dlCase) *vt.Fail {
	last = obs{}
	if c.DeadlineMS < -5000 || (c.DeadlineMS > -50 && c.DeadlineMS < 20) || c.DeadlineMS > 10000 || len(c.Scripts) == 0 || len(c.Scripts) > 6 {
		return nil
	}
	if c.DeadlineMS < 0 {
		// a deadline that is already past when RunT starts: every command is interrupted as soon as it runs and killed one
		// (minimal) grace period later. Only the kinds whose timing does not refer to the interrupt time.
		for _, s := range c.Scripts {
			switch s.Kind {
			case "block", "ignore-quit", "ignore-quit-inherited", "quit-exits-0":
			default:
				return nil
			}
		}
		if c.Sequential {
			return nil
		}
	}
	// soft (upper) bounds are judged only on a responsive machine and must reproduce three times in a row
	var soft string
	for attempt := 0; attempt < 3; attempt++ {
		busy := loadProbe() > 50*time.Millisecond
		f, s := runCase(c)
		if f != nil {
			return f
		}
		if s == "" {
			return nil
		}
		if busy || loadProbe() > 50*time.Millisecond {
			rec.Class("deadline:soft-bound-missed-on-busy-machine", 1)
			return nil
		}
		soft = s
	}
	key := "finished-after-deadline"
	if strings.Contains(soft, "shows no interrupt") {
		key = "never-interrupted"
	}
	return vt.Failf(key, "three runs in a row on a responsive machine: %s", soft)
}

func trunc(s string, n int) string {
	if len(s) > n {
		return s[:n] + "..."
	}
	return s
}

func genDeadline(t *rapid.T) dlCase {
	c := dlCase{DeadlineMS: rapid.SampledFrom([]int{300, 400, 600, 900, 1500, 2200, 3000, 150, 50}).Draw(t, "deadline")}
	c.KeepWork = rapid.IntRange(0, 2).Draw(t, "keepwork") == 1
	if rapid.IntRange(0, 3).Draw(t, "sequential") == 0 {
		// sequential T: scripts that use up 10-35% of the budget each, then one that blocks
		c.Sequential = true
		if c.DeadlineMS < 900 {
			c.DeadlineMS = 900
		}
		n := rapid.IntRange(1, 2).Draw(t, "nconsume")
		for i := 0; i < n; i++ {
			c.Scripts = append(c.Scripts, scriptSpec{Kind: "consume", EdgeMS: rapid.IntRange(10, 35).Draw(t, "pct")})
		}
		c.Scripts = append(c.Scripts, scriptSpec{Kind: rapid.SampledFrom([]string{"block", "ignore-quit", "ignore-quit-inherited", "quit-exits-0"}).Draw(t, "lastkind"), Neg: rapid.IntRange(0, 3).Draw(t, "neg") == 0, Before: rapid.IntRange(0, 2).Draw(t, "before")})
		if rapid.Bool().Draw(t, "late") {
			// one more blocking script: it starts when the first has been stopped, i.e. after the interrupt time
			c.Scripts = append(c.Scripts, scriptSpec{Kind: rapid.SampledFrom([]string{"ignore-quit-inherited", "ignore-quit", "block"}).Draw(t, "latekind"), Before: rapid.IntRange(0, 1).Draw(t, "latebefore")})
		}
		return c
	}
	n := rapid.IntRange(1, 4).Draw(t, "nscripts")
	for i := 0; i < n; i++ {
		s := scriptSpec{Kind: rapid.SampledFrom([]string{"early", "block", "block", "ignore-quit", "ignore-quit", "sleep-edge", "ignore-quit-inherited", "bg-wait", "orphan-pipe", "immutable", "quit-exits-0"}).Draw(t, "kind"), Before: rapid.IntRange(0, 2).Draw(t, "before")}
		s.Neg = rapid.IntRange(0, 3).Draw(t, "neg") == 0
		s.EdgeMS = rapid.IntRange(-30, 30).Draw(t, "edge")
		s.AtKill = rapid.Bool().Draw(t, "atkill")
		c.Scripts = append(c.Scripts, s)
	}
	return c
}

func TestDeadlines(t *testing.T) {
	vt.Run(t, rec, vt.Prop[dlCase]{Kind: "deadline", Gen: genDeadline, Check: checkDeadline, Meta: func(c dlCase) vt.Meta {
		cl := []string{fmt.Sprintf("deadline=%dms", c.DeadlineMS)}
		if c.Sequential {
			cl = append(cl, "sequential-T")
		}
		if c.KeepWork {
			cl = append(cl, "work-directories-kept")
		}
		for _, s := range c.Scripts {
			cl = append(cl, "script="+s.Kind)
		}
		return vt.Meta{NonTrivial: last.blocked, Classes: cl}
	}, Reduce: func(c dlCase) []dlCase {
		var out []dlCase
		for _, ss := range vt.DropOne(c.Scripts) {
			d := c
			d.Scripts = ss
			out = append(out, d)
		}
		return out
	}}, vt.N(8, 160))
}

// Fixed scenarios run by both tiers: the late-start shapes are too rare among the few random cases the quick tier can afford.
var scenarios = []dlCase{
	{DeadlineMS: 900, Sequential: true, Scripts: []scriptSpec{{Kind: "ignore-quit-inherited"}, {Kind: "ignore-quit-inherited", Before: 1}}},
	{DeadlineMS: 1500, Sequential: true, Scripts: []scriptSpec{{Kind: "consume", EdgeMS: 20}, {Kind: "block"}, {Kind: "ignore-quit-inherited"}}},
	{DeadlineMS: 600, Scripts: []scriptSpec{{Kind: "ignore-quit-inherited", Neg: true}, {Kind: "early"}, {Kind: "block", Before: 2}}},
	// a deadline closer than two grace periods: the interrupt time is already past when the scripts start
	{DeadlineMS: 120, Scripts: []scriptSpec{{Kind: "ignore-quit-inherited"}, {Kind: "block", Before: 1}}},
	{DeadlineMS: 700, Scripts: []scriptSpec{{Kind: "bg-wait", Before: 1}, {Kind: "early"}}},
	// a work directory that cannot be removed
	{DeadlineMS: 900, Scripts: []scriptSpec{{Kind: "immutable"}, {Kind: "block"}}},
	// no process left to interrupt when the interrupt is due, the output pipes still open
	{DeadlineMS: 1500, Scripts: []scriptSpec{{Kind: "orphan-pipe", Before: 1}, {Kind: "block"}}},
	// kept work directories: a script that ends early must not disturb the ones still running
	{DeadlineMS: 900, KeepWork: true, Scripts: []scriptSpec{{Kind: "early"}, {Kind: "block", Before: 1}, {Kind: "ignore-quit-inherited"}}},
	{DeadlineMS: 1200, KeepWork: true, Sequential: true, Scripts: []scriptSpec{{Kind: "consume", EdgeMS: 15}, {Kind: "block"}}},
	// the deadline is already past when RunT starts
	{DeadlineMS: -500, Scripts: []scriptSpec{{Kind: "ignore-quit-inherited"}, {Kind: "block", Before: 1}}},
	{DeadlineMS: -3000, Scripts: []scriptSpec{{Kind: "ignore-quit-inherited", Neg: true, Before: 1}}},
	// a command that answers the interrupt with a clean exit
	{DeadlineMS: 900, Scripts: []scriptSpec{{Kind: "quit-exits-0", Before: 1}, {Kind: "quit-exits-0", Neg: true}}},
}

func TestScenarios(t *testing.T) {
	if rec.Violations() > 0 {
		t.Skip()
	}
	for i, c := range scenarios {
		if i%vt.NShards() != vt.Shard() {
			continue
		}
		rec.Eval(1)
		rec.NonTrivialDistinct(1)
		rec.Class("scenario", 1)
		if !vt.CheckOne(rec, "deadline", c, checkDeadline) {
			return
		}
	}
}

var replayers = vt.Replayer{"deadline": vt.Decode(checkDeadline)}

func TestReplay(t *testing.T) { vt.Replay(t, rec, replayers) }
