package tskit

import (
	"fmt"
	"strconv"
	"strings"
	"sync"
	"time"

	"github.com/rogpeppe/go-internal/testscript"
)

type sentinel int

const (
	sentFail sentinel = iota + 1
	sentSkip
)

// SubResult is the outcome of one subtest (script).
type SubResult struct {
	Start   time.Time
	End     time.Time
	Name    string
	Verdict string // pass | fail | skip | panic
	Log     string
	Panic   string
}

// RecT implements testscript.T, recording verdicts and logs.
type RecT struct {
	Parallel_ bool // run subtests in their own goroutines (joined by Wait)
	VerboseOn bool

	mu   sync.Mutex
	subs []*SubResult
	wg   sync.WaitGroup
	top  *SubResult
}

type subT struct {
	r   *RecT
	res *SubResult
	mu  sync.Mutex
}

func (t *subT) Skip(args ...any) {
	t.Log(args...)
	panic(sentSkip)
}
func (t *subT) Fatal(args ...any) {
	t.Log(args...)
	panic(sentFail)
}
func (t *subT) Parallel() {}
func (t *subT) Log(args ...any) {
	t.mu.Lock()
	t.res.Log += fmt.Sprint(args...) + "\n"
	t.mu.Unlock()
}
func (t *subT) FailNow()      { panic(sentFail) }
func (t *subT) Verbose() bool { return t.r.VerboseOn }
func (t *subT) Run(name string, f func(testscript.T)) {
	res := &SubResult{Name: name}
	t.r.mu.Lock()
	t.r.subs = append(t.r.subs, res)
	t.r.mu.Unlock()
	st := &subT{r: t.r, res: res}
	body := func() {
		res.Start = time.Now()
		defer func() {
			res.End = time.Now()
			switch e := recover(); e {
			case nil:
				res.Verdict = "pass"
			case sentFail:
				res.Verdict = "fail"
			case sentSkip:
				res.Verdict = "skip"
			default:
				res.Verdict = "panic"
				res.Panic = fmt.Sprint(e)
			}
		}()
		f(st)
	}
	if t.r.Parallel_ {
		t.r.wg.Add(1)
		go func() {
			defer t.r.wg.Done()
			body()
		}()
		return
	}
	body()
}

// RunT runs testscript.RunT with p and returns the per-script results (in start order) and the top-level outcome.
func (r *RecT) RunT(p testscript.Params) (subs []*SubResult, top *SubResult) {
	top = &SubResult{Name: "<top>"}
	st := &subT{r: r, res: top}
	func() {
		defer func() {
			switch e := recover(); e {
			case nil:
				top.Verdict = "pass"
			case sentFail:
				top.Verdict = "fail"
			case sentSkip:
				top.Verdict = "skip"
			default:
				top.Verdict = "panic"
				top.Panic = fmt.Sprint(e)
			}
		}()
		testscript.RunT(st, p)
	}()
	r.wg.Wait()
	return r.subs, top
}

// FailLines extracts the line numbers (and messages) of "FAIL: <file>:<line>: msg" occurrences naming file.
// The marker is searched anywhere in the log: command output that does not end in a newline can precede it on the same line.
func FailLines(log, file string) (lines []int, msgs []string) {
	marker := "FAIL: " + file + ":"
	for {
		i := strings.Index(log, marker)
		if i < 0 {
			return
		}
		log = log[i+len(marker):]
		j := 0
		for j < len(log) && log[j] >= '0' && log[j] <= '9' {
			j++
		}
		if j == 0 || j >= len(log) || log[j] != ':' {
			continue
		}
		n, _ := strconv.Atoi(log[:j])
		msg := log[j+1:]
		if k := strings.IndexByte(msg, '\n'); k >= 0 {
			msg = msg[:k]
		}
		lines = append(lines, n)
		msgs = append(msgs, strings.TrimSpace(msg))
	}
}
