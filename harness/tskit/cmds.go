package tskit

import (
	"fmt"
	"os"
	"path/filepath"
	"sort"
	"strings"
	"sync"

	"github.com/rogpeppe/go-internal/testscript"
)

// ProbeRec is one observation made by the custom "probe" command.
type ProbeRec struct {
	Line int      `json:"-"`
	Neg  bool     `json:"neg,omitempty"`
	Args []string `json:"args"`
	Cwd  string   `json:"cwd"` // relative to $WORK ("." for $WORK itself)
}

// EnvRec is one observation made by the custom "getenv" command.
type EnvRec struct {
	Name, Value string
}

// Recorder collects what the custom commands observe, per script name.
type Recorder struct {
	mu     sync.Mutex
	Probes map[string][]ProbeRec
	Envs   map[string][]EnvRec
	Defers map[string][]string
	Setup  map[string][]string // setup-time observations (e.g. listing of the work dir)
	Std    map[string][]string // stdout buffers recorded by "recstd"
}

func NewRecorder() *Recorder {
	return &Recorder{Probes: map[string][]ProbeRec{}, Envs: map[string][]EnvRec{}, Defers: map[string][]string{}, Setup: map[string][]string{}, Std: map[string][]string{}}
}

func relWork(ts *testscript.TestScript, abs string) string {
	w := ts.Getenv("WORK")
	if r, err := filepath.Rel(w, abs); err == nil {
		return r
	}
	return abs
}

// Cmds returns the custom commands backed by r.
func (r *Recorder) Cmds() map[string]func(ts *testscript.TestScript, neg bool, args []string) {
	return map[string]func(ts *testscript.TestScript, neg bool, args []string){
		"probe": func(ts *testscript.TestScript, neg bool, args []string) {
			r.mu.Lock()
			r.Probes[ts.Name()] = append(r.Probes[ts.Name()], ProbeRec{Neg: neg, Args: append([]string{}, args...), Cwd: relWork(ts, ts.MkAbs("."))})
			r.mu.Unlock()
		},
		"getenv": func(ts *testscript.TestScript, neg bool, args []string) {
			r.mu.Lock()
			for _, a := range args {
				r.Envs[ts.Name()] = append(r.Envs[ts.Name()], EnvRec{a, ts.Getenv(a)})
			}
			r.mu.Unlock()
		},
		"recstd": func(ts *testscript.TestScript, neg bool, args []string) {
			r.mu.Lock()
			r.Std[ts.Name()] = append(r.Std[ts.Name()], ts.ReadFile("stdout"))
			r.mu.Unlock()
		},
		"failcmd": func(ts *testscript.TestScript, neg bool, args []string) {
			ts.Fatalf("failcmd %s", strings.Join(args, " "))
		},
		"cemit": func(ts *testscript.TestScript, neg bool, args []string) {
			if neg {
				ts.Fatalf("unsupported: ! cemit")
			}
			for len(args) >= 2 {
				switch args[0] {
				case "-o":
					fmt.Fprint(ts.Stdout(), Unescape(args[1]))
				case "-e":
					fmt.Fprint(ts.Stderr(), Unescape(args[1]))
				default:
					ts.Fatalf("usage: cemit [-o text] [-e text]")
				}
				args = args[2:]
			}
			if len(args) != 0 {
				ts.Fatalf("usage: cemit [-o text] [-e text]")
			}
		},
		// cexec runs a program through the exported TestScript.Exec, the way custom commands of real users do (gotooltest's
		// "go"): same contract as the builtin exec without "&" - pending stdin is used up, stdout and stderr are captured
		"cexec": func(ts *testscript.TestScript, neg bool, args []string) {
			if len(args) < 1 {
				ts.Fatalf("usage: cexec program [args...]")
			}
			err := ts.Exec(args[0], args[1:]...)
			if err == nil && neg {
				ts.Fatalf("unexpected command success")
			}
			if err != nil && !neg {
				ts.Fatalf("unexpected command failure: %v", err)
			}
		},
		"setenv": func(ts *testscript.TestScript, neg bool, args []string) {
			if neg || len(args) != 2 {
				ts.Fatalf("usage: setenv name value")
			}
			ts.Setenv(args[0], args[1])
		},
		"defer": func(ts *testscript.TestScript, neg bool, args []string) {
			if neg || len(args) != 1 {
				ts.Fatalf("usage: defer tag")
			}
			tag := args[0]
			name := ts.Name()
			ts.Defer(func() {
				r.mu.Lock()
				r.Defers[name] = append(r.Defers[name], tag)
				r.mu.Unlock()
			})
		},
	}
}

// RecordDefer records that a deferred function registered outside the script (e.g. by Params.Setup) ran.
func (r *Recorder) RecordDefer(name, tag string) {
	r.mu.Lock()
	r.Defers[name] = append(r.Defers[name], tag)
	r.mu.Unlock()
}

// Condition is the custom condition function: ctrue, cfalse; anything else is an error.
func Condition(cond string) (bool, error) {
	switch cond {
	case "ctrue":
		return true, nil
	case "cfalse":
		return false, nil
	}
	return false, fmt.Errorf("unknown custom condition %q", cond)
}

// Node is one entry of a directory snapshot.
type Node struct {
	Kind   string `json:"kind"` // dir | file | symlink
	Data   string `json:"data,omitempty"`
	Target string `json:"target,omitempty"`
	Perm   uint32 `json:"perm,omitempty"`
}

// Snapshot walks dir (not following symlinks) and returns rel path -> node; skip names the top-level entries to ignore.
func Snapshot(dir string, skip ...string) map[string]Node {
	m := map[string]Node{}
	filepath.Walk(dir, func(p string, info os.FileInfo, err error) error {
		if err != nil || p == dir {
			return nil
		}
		rel, _ := filepath.Rel(dir, p)
		for _, s := range skip {
			if rel == s || strings.HasPrefix(rel, s+string(filepath.Separator)) {
				if info.IsDir() {
					return filepath.SkipDir
				}
				return nil
			}
		}
		switch {
		case info.Mode()&os.ModeSymlink != 0:
			t, _ := os.Readlink(p)
			m[rel] = Node{Kind: "symlink", Target: t}
		case info.IsDir():
			m[rel] = Node{Kind: "dir", Perm: uint32(info.Mode().Perm())}
		default:
			b, _ := os.ReadFile(p)
			m[rel] = Node{Kind: "file", Data: string(b), Perm: uint32(info.Mode().Perm())}
		}
		return nil
	})
	return m
}

// SortedKeys returns the keys of a snapshot in order.
func SortedKeys(m map[string]Node) []string {
	var ks []string
	for k := range m {
		ks = append(ks, k)
	}
	sort.Strings(ks)
	return ks
}
