package tskit

import (
	"fmt"
	"os"
	"path/filepath"
	"strings"
	"sync/atomic"
	"testing"
	"time"

	"github.com/rogpeppe/go-internal/testscript"
)

// MainWrapper lets a package run testscript.Main around its tests and flush statistics afterwards.
type MainWrapper struct {
	M     *testing.M
	After func()
}

func (w MainWrapper) Run() int {
	code := w.M.Run()
	if w.After != nil {
		w.After()
	}
	return code
}

// Commands is the command map to pass to testscript.Main.
func Commands() map[string]func() {
	return map[string]func(){"vmain": HelperMain, "vhelper": HelperMain}
}

var seq int64

// Scratch returns a fresh scratch directory for one case.
func Scratch(prefix string) string {
	base := os.Getenv("VERIF_SCRATCH")
	if base == "" {
		base = os.TempDir()
	}
	d := filepath.Join(base, fmt.Sprintf("%s-%d-%d", prefix, os.Getpid(), atomic.AddInt64(&seq, 1)))
	os.RemoveAll(d)
	os.MkdirAll(d, 0o777)
	if r, err := filepath.EvalSymlinks(d); err == nil {
		d = r
	}
	return d
}

// RemoveAll removes a scratch tree even if scripts made parts of it read-only.
func RemoveAll(dir string) {
	filepath.Walk(dir, func(p string, info os.FileInfo, err error) error {
		if err == nil && info.IsDir() {
			os.Chmod(p, 0o777)
		}
		return nil
	})
	os.RemoveAll(dir)
}

type ScriptFile struct {
	Name string // subtest name; the file is <name>.txt (or <name><Ext>)
	Data []byte
	Ext  string // "" = ".txt"; ".txtar" is the other extension RunT recognises
}

type RunOpts struct {
	Params    testscript.Params // Files, WorkdirRoot are filled in; Cmds/Condition as given
	Retain    bool              // use WorkdirRoot so that the trees can be inspected
	Parallel  bool
	Deadline  time.Duration // 0 = none
	ScriptDir string        // where script files are written (default: <root>/scripts)
	// UseDir passes the script directory as Params.Dir instead of listing Params.Files (ignored when a script name
	// contains a directory or the directory order - by file name - differs from the given order). The directory then
	// also holds files that are not scripts.
	UseDir bool
}

type RunResult struct {
	Root     string // scratch root of this run
	WorkRoot string // WorkdirRoot ("" if not retained)
	Files    []string
	Subs     []*SubResult
	Top      *SubResult
	Elapsed  time.Duration
}

// RunInProcess writes the scripts and runs them with testscript.RunT through a RecT.
func RunInProcess(root string, scripts []ScriptFile, o RunOpts) RunResult {
	res := RunResult{Root: root}
	sdir := o.ScriptDir
	if sdir == "" {
		sdir = filepath.Join(root, "scripts")
	}
	os.MkdirAll(sdir, 0o777)
	p := o.Params
	p.Dir = ""
	p.Files = nil
	useDir := o.UseDir
	for i, s := range scripts {
		ext := s.Ext
		if ext == "" {
			ext = ".txt"
		}
		f := filepath.Join(sdir, s.Name+ext)
		os.MkdirAll(filepath.Dir(f), 0o777) // names may contain directories (scripts with equal base names)
		os.WriteFile(f, s.Data, 0o666)
		p.Files = append(p.Files, f)
		if strings.Contains(s.Name, "/") || (i > 0 && filepath.Base(p.Files[i-1]) >= filepath.Base(f)) {
			useDir = false
		}
	}
	res.Files = p.Files
	if useDir {
		p.Dir, p.Files = sdir, nil
		os.WriteFile(filepath.Join(sdir, "README.md"), []byte("not a script\n"), 0o666)
		os.WriteFile(filepath.Join(sdir, "old.txt.bak"), []byte("exec false\n"), 0o666)
		os.MkdirAll(filepath.Join(sdir, "subdir"), 0o777)
		os.WriteFile(filepath.Join(sdir, "subdir", "nested.txt"), []byte("exec false\n"), 0o666)
	}
	if o.Retain {
		res.WorkRoot = filepath.Join(root, "work")
		os.MkdirAll(res.WorkRoot, 0o777)
		p.WorkdirRoot = res.WorkRoot
	}
	if o.Deadline != 0 { // (negative: a deadline that is already past when RunT starts)
		p.Deadline = time.Now().Add(o.Deadline)
	}
	rt := &RecT{Parallel_: o.Parallel}
	start := time.Now()
	res.Subs, res.Top = rt.RunT(p)
	res.Elapsed = time.Since(start)
	return res
}

// LayoutFor derives, from the script text, how the script file is presented to RunT: extension .txt or .txtar, listed in
// Params.Files or found through Params.Dir. A pure function of the text, so a replayed case uses the same layout.
func LayoutFor(data []byte) (ext string, useDir bool) {
	h := uint32(2166136261)
	for _, b := range data {
		h = (h ^ uint32(b)) * 16777619
	}
	if h%3 == 0 {
		ext = ".txtar"
	}
	return ext, (h>>8)%2 == 0
}
