package tskit

import (
	"fmt"
	"os"
	"path/filepath"
	"sync/atomic"
	"testing"
	"time"

	"github.com/rogpeppe/go-internal/testscript"
)

// MainWrapper lets a package run testscript.Main around its tests and flush statistics afterwards.
type MainWrapper struct {
	M     *testing.M
	After func()
}

func (w MainWrapper) Run() int {
	code := w.M.Run()
	if w.After != nil {
		w.After()
	}
	return code
}

// Commands is the command map to pass to testscript.Main.
func Commands() map[string]func() {
	return map[string]func(){"vmain": HelperMain, "vhelper": HelperMain}
}

var seq int64

// Scratch returns a fresh scratch directory for one case.
func Scratch(prefix string) string {
	base := os.Getenv("VERIF_SCRATCH")
	if base == "" {
		base = os.TempDir()
	}
	d := filepath.Join(base, fmt.Sprintf("%s-%d-%d", prefix, os.Getpid(), atomic.AddInt64(&seq, 1)))
	os.RemoveAll(d)
	os.MkdirAll(d, 0o777)
	if r, err := filepath.EvalSymlinks(d); err == nil {
		d = r
	}
	return d
}

// RemoveAll removes a scratch tree even if scripts made parts of it read-only.
func RemoveAll(dir string) {
	filepath.Walk(dir, func(p string, info os.FileInfo, err error) error {
		if err == nil && info.IsDir() {
			os.Chmod(p, 0o777)
		}
		return nil
	})
	os.RemoveAll(dir)
}

type ScriptFile struct {
	Name string // subtest name; the file is <name>.txt
	Data []byte
}

type RunOpts struct {
	Params    testscript.Params // Files, WorkdirRoot are filled in; Cmds/Condition as given
	Retain    bool              // use WorkdirRoot so that the trees can be inspected
	Parallel  bool
	Deadline  time.Duration // 0 = none
	ScriptDir string        // where script files are written (default: <root>/scripts)
}

type RunResult struct {
	Root     string // scratch root of this run
	WorkRoot string // WorkdirRoot ("" if not retained)
	Files    []string
	Subs     []*SubResult
	Top      *SubResult
	Elapsed  time.Duration
}

// RunInProcess writes the scripts and runs them with testscript.RunT through a RecT.
func RunInProcess(root string, scripts []ScriptFile, o RunOpts) RunResult {
	res := RunResult{Root: root}
	sdir := o.ScriptDir
	if sdir == "" {
		sdir = filepath.Join(root, "scripts")
	}
	os.MkdirAll(sdir, 0o777)
	p := o.Params
	p.Dir = ""
	p.Files = nil
	for _, s := range scripts {
		f := filepath.Join(sdir, s.Name+".txt")
		os.MkdirAll(filepath.Dir(f), 0o777) // names may contain directories (scripts with equal base names)
		os.WriteFile(f, s.Data, 0o666)
		p.Files = append(p.Files, f)
	}
	res.Files = p.Files
	if o.Retain {
		res.WorkRoot = filepath.Join(root, "work")
		os.MkdirAll(res.WorkRoot, 0o777)
		p.WorkdirRoot = res.WorkRoot
	}
	if o.Deadline > 0 {
		p.Deadline = time.Now().Add(o.Deadline)
	}
	rt := &RecT{Parallel_: o.Parallel}
	start := time.Now()
	res.Subs, res.Top = rt.RunT(p)
	res.Elapsed = time.Since(start)
	return res
}
