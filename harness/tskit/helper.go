// Package tskit is the shared testscript harness kit: the helper program run by
// generated scripts (registered with testscript.Main as "vmain" and "vhelper"),
// a recording implementation of testscript.T, custom commands/conditions, and
// utilities to run scripts in-process and to snapshot work directories.
package tskit

import (
	"fmt"
	"io"
	"os"
	"os/exec"
	"os/signal"
	"path/filepath"
	"sort"
	"strconv"
	"strings"
	"syscall"
	"time"
)

// Unescape turns the two-character sequences \n, \t, \r, \\ and \s (space) into their characters.
// Script arguments cannot contain newlines, so helper texts are passed escaped.
func Unescape(s string) string {
	var b strings.Builder
	for i := 0; i < len(s); i++ {
		if s[i] == '\\' && i+1 < len(s) {
			i++
			switch s[i] {
			case 'n':
				b.WriteByte('\n')
			case 't':
				b.WriteByte('\t')
			case 'r':
				b.WriteByte('\r')
			case 's':
				b.WriteByte(' ')
			case '\\':
				b.WriteByte('\\')
			default:
				b.WriteByte('\\')
				b.WriteByte(s[i])
			}
			continue
		}
		b.WriteByte(s[i])
	}
	return b.String()
}

// HelperResult is what a pure helper invocation produces (used by the model).
type HelperResult struct {
	Stdout, Stderr string
	Exit           int
	Touch          []string // files to create relative to cwd (content "touched\n")
	Known          bool     // false: the model cannot predict this invocation
}

// PureHelper computes the result of the deterministic helper sub-commands.
// getenv returns (value, present).
func PureHelper(args []string, stdin string, cwd string, getenv func(string) (string, bool)) HelperResult {
	if len(args) == 0 {
		return HelperResult{Stderr: "vhelper: missing sub-command\n", Exit: 2, Known: true}
	}
	switch args[0] {
	case "emit":
		r := HelperResult{Known: true}
		a := args[1:]
		for len(a) >= 2 {
			switch a[0] {
			case "-o":
				r.Stdout += Unescape(a[1])
			case "-e":
				r.Stderr += Unescape(a[1])
			case "-x":
				n, err := strconv.Atoi(a[1])
				if err != nil || n < 0 || n > 125 {
					return HelperResult{Stderr: "vhelper emit: bad exit code\n", Exit: 2, Known: true}
				}
				r.Exit = n
			default:
				return HelperResult{Stderr: "vhelper emit: bad flag\n", Exit: 2, Known: true}
			}
			a = a[2:]
		}
		if len(a) != 0 {
			return HelperResult{Stderr: "vhelper emit: bad arguments\n", Exit: 2, Known: true}
		}
		return r
	case "spawn":
		// spawn --pid=FILE MS: starts a grandchild that keeps the inherited output pipes open for MS milliseconds and
		// exits at once itself; no output, status 0
		return HelperResult{Known: true}
	case "cat":
		return HelperResult{Stdout: stdin, Known: true}
	case "printenv":
		var b strings.Builder
		for _, n := range args[1:] {
			if v, ok := getenv(n); ok {
				fmt.Fprintf(&b, "%s=%q\n", n, v)
			} else {
				fmt.Fprintf(&b, "%s=<unset>\n", n)
			}
		}
		return HelperResult{Stdout: b.String(), Known: true}
	case "pwd":
		return HelperResult{Stdout: cwd + "\n", Known: true}
	case "touch":
		return HelperResult{Touch: args[1:], Known: true}
	case "args":
		var b strings.Builder
		for i, a := range args[1:] {
			fmt.Fprintf(&b, "%d=%q\n", i, a)
		}
		return HelperResult{Stdout: b.String(), Known: true}
	}
	return HelperResult{}
}

// HelperMain is the entry point of the helper program.
func HelperMain() {
	args := os.Args[1:]
	if len(args) > 0 {
		switch args[0] {
		case "dumpenv":
			env := os.Environ()
			sort.Strings(env)
			for _, kv := range env {
				fmt.Printf("%q\n", kv)
			}
			os.Exit(0)
		case "writepid":
			// writepid FILE: record our pid and start time
			if len(args) == 2 {
				os.WriteFile(args[1], []byte(fmt.Sprintf("%d %s\n", os.Getpid(), procStart(os.Getpid()))), 0o666)
			}
			os.Exit(0)
		case "waitfile":
			// waitfile FILE...: wait until every file exists (20 s limit)
			end := time.Now().Add(20 * time.Second)
			for _, f := range args[1:] {
				for {
					if _, err := os.Stat(f); err == nil {
						break
					}
					if time.Now().After(end) {
						fmt.Fprintln(os.Stderr, "vhelper waitfile: timeout")
						os.Exit(3)
					}
					time.Sleep(200 * time.Microsecond)
				}
			}
			os.Exit(0)
		case "spawn":
			if exe, err := os.Executable(); err == nil && len(args) >= 2 {
				// the same binary under the same command name, with our stdout and stderr
				c := exec.Command(filepath.Join(filepath.Dir(os.Args[0]), filepath.Base(os.Args[0])), append([]string{"sleepms"}, args[1:]...)...)
				if !filepath.IsAbs(os.Args[0]) {
					c = exec.Command(exe, append([]string{"sleepms"}, args[1:]...)...)
					c.Args[0] = os.Args[0]
				}
				c.Stdout, c.Stderr = os.Stdout, os.Stderr
				if err := c.Start(); err != nil {
					fmt.Fprintln(os.Stderr, "vhelper spawn:", err)
					os.Exit(3)
				}
			}
			os.Exit(0)
		case "sleepms":
			n, _ := strconv.Atoi(args[len(args)-1])
			for _, a := range args[1 : len(args)-1] {
				if strings.HasPrefix(a, "--pid=") {
					os.WriteFile(strings.TrimPrefix(a, "--pid="), []byte(fmt.Sprintf("%d %s\n", os.Getpid(), procStart(os.Getpid()))), 0o666)
				}
			}
			time.Sleep(time.Duration(n) * time.Millisecond)
			os.Exit(0)
		case "block":
			// block [--ignore-quit] [--exit-on-int] [--exit0-on-quit] [--die-after=MS] [--ready=FILE] [--pid=FILE] [-o TEXT]
			exitOnInt := false
			ready := ""
			dieAfter := time.Duration(0) // give up (status 7) after this long: a bound for cases where a signal can get lost
			for i := 1; i < len(args); i++ {
				a := args[i]
				switch {
				case a == "--ignore-quit":
					signal.Ignore(syscall.SIGQUIT)
				case a == "--exit-on-int":
					exitOnInt = true
				case a == "--exit0-on-quit":
					// a program that takes the interrupt as a request to shut down in good order: status 0
					qc := make(chan os.Signal, 1)
					signal.Notify(qc, syscall.SIGQUIT)
					go func() {
						<-qc
						os.Exit(0)
					}()
				case strings.HasPrefix(a, "--die-after="):
					ms, _ := strconv.Atoi(strings.TrimPrefix(a, "--die-after="))
					dieAfter = time.Duration(ms) * time.Millisecond
				case strings.HasPrefix(a, "--ready="):
					ready = strings.TrimPrefix(a, "--ready=")
				case strings.HasPrefix(a, "--pid="):
					os.WriteFile(strings.TrimPrefix(a, "--pid="), []byte(fmt.Sprintf("%d %s\n", os.Getpid(), procStart(os.Getpid()))), 0o666)
				case a == "-o" && i+1 < len(args):
					os.Stdout.WriteString(Unescape(args[i+1]))
					i++
				case a == "-e" && i+1 < len(args):
					os.Stderr.WriteString(Unescape(args[i+1]))
					i++
				}
			}
			ch := make(chan os.Signal, 1)
			if exitOnInt {
				signal.Notify(ch, os.Interrupt)
			}
			if ready != "" {
				// atomically: a script may copy the file as soon as waitfile sees it
				tmp := ready + ".tmp-" + strconv.Itoa(os.Getpid())
				os.WriteFile(tmp, []byte("ready\n"), 0o666)
				os.Rename(tmp, ready)
			}
			if dieAfter > 0 {
				go func() {
					time.Sleep(dieAfter)
					os.Exit(7)
				}()
			}
			if exitOnInt {
				<-ch
				os.Exit(0)
			}
			for {
				time.Sleep(time.Hour) // not select{}: the runtime would report a deadlock and exit
			}
		}
	}
	stdin := ""
	if len(args) > 0 && args[0] == "cat" {
		b, _ := io.ReadAll(os.Stdin)
		stdin = string(b)
	}
	cwd, _ := os.Getwd()
	r := PureHelper(args, stdin, cwd, os.LookupEnv)
	if !r.Known {
		fmt.Fprintf(os.Stderr, "vhelper: unknown sub-command %q\n", args)
		os.Exit(2)
	}
	for _, f := range r.Touch {
		if err := os.WriteFile(f, []byte("touched\n"), 0o666); err != nil {
			fmt.Fprintln(os.Stderr, err)
			os.Exit(1)
		}
	}
	os.Stdout.WriteString(r.Stdout)
	os.Stderr.WriteString(r.Stderr)
	os.Exit(r.Exit)
}

// procStart returns field 22 (start time) of /proc/<pid>/stat, identifying a process beyond pid reuse.
func procStart(pid int) string {
	b, err := os.ReadFile(fmt.Sprintf("/proc/%d/stat", pid))
	if err != nil {
		return ""
	}
	s := string(b)
	i := strings.LastIndex(s, ")")
	if i < 0 {
		return ""
	}
	f := strings.Fields(s[i+1:])
	if len(f) < 20 {
		return ""
	}
	return f[19]
}

// Alive reports whether the process recorded as "pid starttime" is still running (zombies count as dead).
// StillAlive reports whether the recorded process is alive and stays so: a process that is on its way out has closed its
// files - which is what ends a `wait` for it - a moment before it becomes a zombie, and on a busy machine that moment can
// be long. It is looked at for 0.3 s (20 s when the machine does not answer promptly); gone at any time means gone.
func StillAlive(rec string) bool {
	limit := 300 * time.Millisecond
	t0 := time.Now()
	for probed := false; ; {
		if !Alive(rec) {
			return false
		}
		if time.Since(t0) > limit {
			if probed {
				return true
			}
			probed = true
			p0 := time.Now()
			exec.Command("/bin/true").Run()
			if time.Since(p0) < 100*time.Millisecond {
				return true
			}
			limit = 20 * time.Second
		}
		time.Sleep(20 * time.Millisecond)
	}
}

func Alive(rec string) bool {
	f := strings.Fields(rec)
	if len(f) < 1 {
		return false
	}
	pid, err := strconv.Atoi(f[0])
	if err != nil {
		return false
	}
	b, err := os.ReadFile(fmt.Sprintf("/proc/%d/stat", pid))
	if err != nil {
		return false
	}
	s := string(b)
	i := strings.LastIndex(s, ")")
	if i < 0 {
		return false
	}
	fs := strings.Fields(s[i+1:])
	if len(fs) < 20 {
		return false
	}
	if fs[0] == "Z" || fs[0] == "X" {
		return false
	}
	return len(f) < 2 || f[1] == "" || fs[19] == f[1]
}
