package c16

import (
	"bytes"
	"fmt"
	"os"
	"path/filepath"
	"strings"
	"testing"
	"time"
	"unicode/utf8"

	"github.com/rogpeppe/go-internal/testscript"
	xtxtar "golang.org/x/tools/txtar"
	"pgregory.net/rapid"

	"verif/tskit"
	"verif/tsmodel"
	"verif/txtarref"
	"verif/vt"
)

var rec = vt.New("C16")

func TestMain(m *testing.M) {
	testscript.Main(tskit.MainWrapper{M: m, After: rec.Flush}, tskit.Commands())
}

type updCase struct {
	File vt.B `json:"file"` // the script file, byte for byte
	// Continue: Params.ContinueOnError as well - lines after a failing one still run, and a later mismatching cmp
	// against an archive entry is still turned into an update
	Continue bool `json:"continue_on_error,omitempty"`
}

func hostFor(work string) tsmodel.Host {
	return tsmodel.Host{WorkAbs: work, Path: os.Getenv("PATH"), Short: testing.Short(), Extra: map[string]string{}}
}

type info struct {
	updated, untouchedAfter bool
	classes                 []string
	skipped                 string
}

var last info

func archiveFiles(b []byte) (string, []tsmodel.ArchiveFile) {
	a := txtarref.Parse(b)
	var fs []tsmodel.ArchiveFile
	for _, f := range a.Files {
		fs = append(fs, tsmodel.ArchiveFile{Name: f.Name, Data: string(f.Data)})
	}
	return string(a.Comment), fs
}

func checkUpdate(c updCase) *vt.Fail {
	last = info{}
	orig := []byte(c.File)
	comment, files := archiveFiles(orig)
	seen := map[string]bool{}
	for _, f := range files {
		// (an entry name may refer to the work directory - the archive then names the file $WORK/..., and that is the name
		// the rewritten archive has to keep; other references are not used)
		if seen[f.Name] || strings.ContainsAny(strings.TrimPrefix(f.Name, "$WORK/"), "$") {
			last.skipped = "duplicate or expanding entry name"
			return nil
		}
		seen[f.Name] = true
	}
	p := tsmodel.Params{UpdateScripts: true, CustomCmds: true, ContinueOnError: c.Continue}
	if pre := tsmodel.New(p, hostFor("/WORKDIR"), files).Run(comment); pre.Unmodelled != "" {
		last.skipped = "unmodelled: " + pre.Unmodelled
		return nil
	}
	root := tskit.Scratch("c16")
	defer tskit.RemoveAll(root)
	r := tskit.NewRecorder()
	tp := testscript.Params{UpdateScripts: true, Cmds: r.Cmds(), ContinueOnError: c.Continue}
	ext, useDir := tskit.LayoutFor(orig)
	rr := tskit.RunInProcess(root, []tskit.ScriptFile{{Name: "s", Data: orig, Ext: ext}}, tskit.RunOpts{Params: tp, Retain: true, Deadline: 30 * time.Second, UseDir: useDir})
	if len(rr.Subs) != 1 {
		return vt.Failf("runt-top-level", "RunT: %s %s", rr.Top.Verdict, rr.Top.Log)
	}
	sub := rr.Subs[0]
	if strings.Contains(sub.Log, "test timed out while running command") {
		// (scripts the reference interpreter accepts end by themselves within milliseconds)
		return vt.BlockedOrBusy(rec, fmt.Sprintf("the script sat in a command until the harness's safety deadline (30s) interrupted it\nfile:\n%q\nlog:\n%s", orig, trunc(sub.Log, 1000)))
	}
	work := filepath.Join(rr.WorkRoot, "script-s")
	want := tsmodel.New(p, hostFor(work), files).Run(comment)
	if want.Unmodelled != "" {
		last.skipped = "unmodelled: " + want.Unmodelled
		return nil
	}
	after, err := os.ReadFile(rr.Files[0])
	if err != nil {
		return vt.Failf("script-file-gone", "the script file cannot be read after the run: %v", err)
	}
	ctx := fmt.Sprintf("\noriginal file:\n%q\nfile after the run:\n%q\nlog:\n%s", orig, after, trunc(sub.Log, 1000))
	// expected updates
	unquotable := false
	expData := map[string]string{}
	for name, content := range want.Updates {
		d, ok := tsmodel.ExpectedEntry(content)
		if !ok {
			unquotable = true
			continue
		}
		expData[name] = d
	}
	if len(want.Updates) > 0 {
		last.updated = true
	}
	if unquotable {
		last.classes = append(last.classes, "unquotable-content")
		// the statement is silent on content txtar cannot hold; only: a run reported as passed must have stored it
		if sub.Verdict == "pass" {
			na := refParse(after)
			for name, content := range want.Updates {
				if _, ok := tsmodel.ExpectedEntry(content); ok {
					continue
				}
				for _, f := range na.Files {
					if f.Name == name {
						u, uerr := unquote(f.Data)
						if string(f.Data) != content && !(uerr == nil && string(u) == content) {
							return vt.Failf("passed-without-storing-content", "the run passed but entry %q holds %q, not the actual content %q%s", name, f.Data, content, ctx)
						}
					}
				}
			}
		}
		return nil
	}
	if sub.Verdict == "panic" {
		return vt.Failf("panic-escaped-runt", "a panic escaped the run: %s%s", sub.Panic, ctx)
	}
	if sub.Verdict != want.Verdict {
		return vt.Failf("verdict-"+want.Verdict+"-reported-"+sub.Verdict, "run reported %s, expected %s (failing lines %v %v, updates %v)%s", sub.Verdict, want.Verdict, want.FailLines, want.FailClass, keys(want.Updates), ctx)
	}
	oa, na := refParse(orig), refParse(after)
	if len(want.Updates) == 0 {
		if !bytes.Equal(orig, after) {
			return vt.Failf("file-changed-without-update", "no cmp against an archive entry failed, but the script file changed%s", ctx)
		}
		return nil
	}
	if !bytes.Equal(oa.Comment, na.Comment) {
		return vt.Failf("script-text-changed", "the script text (archive comment) changed: %q -> %q%s", oa.Comment, na.Comment, ctx)
	}
	if len(oa.Files) != len(na.Files) {
		return vt.Failf("entries-changed", "entry count changed from %d to %d%s", len(oa.Files), len(na.Files), ctx)
	}
	sawUpdated := false
	for i := range oa.Files {
		if oa.Files[i].Name != na.Files[i].Name {
			return vt.Failf("entries-changed", "entry %d renamed/reordered: %q -> %q%s", i, oa.Files[i].Name, na.Files[i].Name, ctx)
		}
		name := oa.Files[i].Name
		exp, upd := expData[name]
		if !upd {
			if !bytes.Equal(oa.Files[i].Data, na.Files[i].Data) {
				return vt.Failf("untouched-entry-changed", "entry %q was not the target of a failing cmp but changed: %q -> %q%s", name, oa.Files[i].Data, na.Files[i].Data, ctx)
			}
			if sawUpdated {
				last.untouchedAfter = true
			}
			continue
		}
		sawUpdated = true
		got := string(na.Files[i].Data)
		// txtar adds the final newline an entry lacks
		if got != exp && got != exp+"\n" {
			// (also when a later line failed for another reason, or the script was skipped: the comparison that was
			// turned into an update has happened, and the statement ties the rewrite to that comparison)
			return vt.Failf("updated-entry-wrong", "entry %q should hold the actual content %q (stored form %q) but holds %q (run reported %s)%s", name, want.Updates[name], exp, got, sub.Verdict, ctx)
		}
	}
	// canonical originals: byte for byte
	if sub.Verdict == "pass" && bytes.Equal(xtxtar.Format(oa), orig) {
		ea := &xtxtar.Archive{Comment: oa.Comment}
		for _, f := range oa.Files {
			d := f.Data
			if e, ok := expData[f.Name]; ok {
				d = []byte(e)
			}
			ea.Files = append(ea.Files, xtxtar.File{Name: f.Name, Data: d})
		}
		if !bytes.Equal(xtxtar.Format(ea), after) {
			return vt.Failf("file-not-canonical-update", "canonical script file: expected exactly %q after the update%s", xtxtar.Format(ea), ctx)
		}
	}
	// second run without UpdateScripts: passes and changes nothing, when every updated content is representable as is
	rerun := sub.Verdict == "pass"
	for _, content := range want.Updates {
		if (content != "" && !strings.HasSuffix(content, "\n")) || txtarref.HasMarkerLine([]byte(content)) || strings.Contains(content, "\r") {
			rerun = false
		}
	}
	if rerun {
		// the script may compare one entry with several different contents: the re-run verdict is what the
		// reference interpreter says about the updated file (it passes when every comparison is consistent)
		c2, f2 := archiveFiles(after)
		if m2 := tsmodel.New(tsmodel.Params{CustomCmds: true}, hostFor("/WORKDIR"), f2).Run(c2); m2.Unmodelled != "" || m2.Verdict != "pass" {
			rerun = false
		}
	}
	if rerun {
		last.classes = append(last.classes, "rerun")
		root2 := tskit.Scratch("c16b")
		defer tskit.RemoveAll(root2)
		r2 := tskit.NewRecorder()
		rr2 := tskit.RunInProcess(root2, []tskit.ScriptFile{{Name: "s", Data: after}}, tskit.RunOpts{Params: testscript.Params{Cmds: r2.Cmds()}, Deadline: 30 * time.Second})
		if len(rr2.Subs) != 1 || rr2.Subs[0].Verdict != "pass" {
			v, l := "?", ""
			if len(rr2.Subs) == 1 {
				v, l = rr2.Subs[0].Verdict, rr2.Subs[0].Log
			}
			return vt.Failf("rerun-does-not-pass", "re-running the updated script without UpdateScripts reports %s\n%s%s", v, trunc(l, 600), ctx)
		}
		if again, _ := os.ReadFile(rr2.Files[0]); !bytes.Equal(again, after) {
			return vt.Failf("rerun-changes-file", "re-running the updated script changed the file again%s", ctx)
		}
	}
	return nil
}

// refParse parses with the CR-aware reference parser (a marker line may end in CRLF).
func refParse(b []byte) *xtxtar.Archive {
	r := txtarref.Parse(b)
	a := &xtxtar.Archive{Comment: r.Comment}
	for _, f := range r.Files {
		a.Files = append(a.Files, xtxtar.File{Name: f.Name, Data: f.Data})
	}
	return a
}

func unquote(d []byte) ([]byte, error) {
	if len(d) == 0 {
		return nil, nil
	}
	if d[0] != '>' || d[len(d)-1] != '\n' {
		return nil, fmt.Errorf("not quoted")
	}
	var b []byte
	for _, l := range bytes.SplitAfter(d, []byte("\n")) {
		b = append(b, bytes.TrimPrefix(l, []byte(">"))...)
	}
	return b, nil
}

func keys(m map[string]string) []string {
	var ks []string
	for k := range m {
		ks = append(ks, k)
	}
	return ks
}

func trunc(s string, n int) string {
	if len(s) > n {
		return s[:n] + "..."
	}
	return s
}

// ---- generator ----

var entryNames = []string{"golden", "want.txt", "exp/out.golden", "stderr.golden", "b.txt", "data/x", "exp/golden", "data/want.txt", "my golden.txt", "exp dir/é.golden", "$WORK/abs.golden", "$WORK/sub/abs2.golden"}
var texts = []string{"hello out\n", "alpha\nbeta\n", "", "one two\n", "line\nwith $HOME\n", "warning: something\n", "\n\nblank lines around\n\n", "  indented  \n", "\n", ">looks quoted\n>second line\n", ">\n"}
var actuals = []string{`hello out\n`, `alpha\nbeta\n`, `changed text\n`, `one two\n`, `no final newline`, `-- x --\nfoo\n`, `foo\n-- x --`, `cr\r\n`, "bad\xffutf8\\n", `>already quoted\n`, `a\n-- y --\nb\n`, "", `-- x --\n\xff\n`}

func pathDir(p string) string {
	if i := strings.LastIndex(p, "/"); i >= 0 {
		return p[:i]
	}
	return "."
}

func pathBase(p string) string { return p[strings.LastIndex(p, "/")+1:] }

func esc(s string) string {
	return strings.NewReplacer("\n", `\n`, "\t", `\t`, "\r", `\r`).Replace(s)
}

func q(w string) string {
	if w == "" {
		return "''"
	}
	if strings.HasPrefix(w, "$WORK/") && !strings.ContainsAny(w[1:], " \t'#$") {
		return w // a reference to the work directory has to stay outside quotes to mean it
	}
	if strings.ContainsAny(w, " \t'#$") {
		return "'" + strings.ReplaceAll(w, "'", "''") + "'"
	}
	return w
}

func genUpdate(t *rapid.T) updCase {
	n := rapid.IntRange(2, 6).Draw(t, "nentries")
	type ent struct{ name, data string }
	var ents []ent
	used := map[string]bool{}
	for i := 0; i < n; i++ {
		name := rapid.SampledFrom(entryNames).Draw(t, "ename")
		if used[name] {
			continue
		}
		used[name] = true
		ents = append(ents, ent{name, rapid.SampledFrom(texts).Draw(t, "etext")})
	}
	var lines []string
	nl := rapid.IntRange(2, 10).Draw(t, "nlines")
	nfile := 0
	for i := 0; i < nl; i++ {
		e := rapid.SampledFrom(ents).Draw(t, "target")
		switch rapid.IntRange(0, 10).Draw(t, "shape") {
		case 0, 1, 2: // produce stdout (matching or not) and compare with an entry
			act := rapid.SampledFrom(actuals).Draw(t, "actual")
			if rapid.IntRange(0, 2).Draw(t, "match") == 0 {
				act = esc(e.data)
			}
			lines = append(lines, "exec vmain emit -o "+q(act), "cmp stdout "+q(e.name))
		case 3: // stderr
			act := rapid.SampledFrom(actuals).Draw(t, "actual")
			lines = append(lines, "exec vmain emit -e "+q(act), "cmp stderr "+q(e.name))
		case 4: // file created at run time, compared with an entry
			nfile++
			f := fmt.Sprintf("actual%d.txt", nfile)
			act := rapid.SampledFrom(actuals).Draw(t, "actual")
			lines = append(lines, "cemit -o "+q(act), "cp stdout "+f, "cmp "+f+" "+q(e.name))
		case 5: // negated cmp never updates
			lines = append(lines, "exec vmain emit -o "+q(rapid.SampledFrom(actuals).Draw(t, "actual")), "! cmp stdout "+q(e.name))
		case 6: // cmpenv never updates (and fails on mismatch)
			act := esc(e.data)
			if rapid.IntRange(0, 3).Draw(t, "envmismatch") == 0 {
				act = `other\n`
			}
			lines = append(lines, "exec vmain emit -o "+q(act), "cmpenv stdout "+q(e.name))
		case 7: // comparison against a file outside the archive
			nfile++
			f := fmt.Sprintf("runtime%d.txt", nfile)
			lines = append(lines, "exec vmain emit -o 'runtime text\\n'", "cp stdout "+f, "exec vmain emit -o "+q(rapid.SampledFrom([]string{`runtime text\n`, `different\n`}).Draw(t, "rt")), "cmp stdout "+f)
		case 8: // same entry twice
			a1, a2 := rapid.SampledFrom(actuals).Draw(t, "a1"), rapid.SampledFrom(actuals).Draw(t, "a2")
			lines = append(lines, "exec vmain emit -o "+q(a1), "cmp stdout "+e.name, "exec vmain emit -o "+q(a2), "cmp stdout "+q(e.name))
		case 9: // compare from inside the entry's directory (or another one) after cd; paths relative to the new directory
			if dir := pathDir(e.name); dir != "." {
				act := rapid.SampledFrom(actuals).Draw(t, "actual")
				lines = append(lines, "cd "+q(dir), "exec vmain emit -o "+q(act), "cmp stdout "+q(pathBase(e.name)), "cd $WORK")
			} else {
				act := rapid.SampledFrom(actuals).Draw(t, "actual")
				lines = append(lines, "mkdir elsewhere", "cd elsewhere", "exec vmain emit -o "+q(act), "cmp stdout "+q("../"+e.name), "cd $WORK")
			}
		case 10:
			if rapid.Bool().Draw(t, "unreadable") {
				// the first operand exists but cannot be read as a file (a directory): nothing was compared, so nothing
				// may be stored
				nfile++
				d := fmt.Sprintf("adir%d", nfile)
				lines = append(lines, "mkdir "+d, "cmp "+d+" "+q(e.name))
				break
			}
			fallthrough
		default:
			lines = append(lines, rapid.SampledFrom([]string{"exists " + q(e.name), "# a phase comment", "", "! exists nosuchfile", "grep . " + q(e.name)}).Draw(t, "filler"))
		}
	}
	script := strings.Join(lines, "\n") + "\n"
	// render the file: canonical or with format variations
	var b bytes.Buffer
	b.WriteString(script)
	canonical := rapid.IntRange(0, 2).Draw(t, "canonical") != 0
	for i, e := range ents {
		marker := "-- " + e.name + " --\n"
		data := e.data
		if !canonical {
			switch rapid.IntRange(0, 3).Draw(t, "mstyle") {
			case 0:
				marker = "--  " + e.name + "   --\n"
			case 1:
				marker = "-- " + e.name + " --\r\n"
			}
			if i == len(ents)-1 && data != "" && rapid.Bool().Draw(t, "nofinalnl") {
				data = strings.TrimSuffix(data, "\n")
			}
		}
		b.WriteString(marker)
		b.WriteString(data)
	}
	return updCase{File: b.Bytes(), Continue: rapid.IntRange(0, 2).Draw(t, "continue") == 1}
}

func TestUpdateScripts(t *testing.T) {
	vt.Run(t, rec, vt.Prop[updCase]{Kind: "update", Gen: genUpdate, Check: checkUpdate, Meta: func(c updCase) vt.Meta {
		cl := append([]string{}, last.classes...)
		if last.skipped != "" {
			cl = append(cl, "skipped")
		}
		if last.updated {
			cl = append(cl, "has-update")
			if c.Continue {
				cl = append(cl, "has-update-under-continue-on-error")
			}
		}
		if !utf8.Valid(c.File) {
			cl = append(cl, "non-utf8-script")
		}
		return vt.Meta{NonTrivial: last.updated && last.untouchedAfter, Classes: cl}
	}}, vt.N(300, 8000))
}

var replayers = vt.Replayer{"update": vt.Decode(checkUpdate)}

func TestReplay(t *testing.T) { vt.Replay(t, rec, replayers) }
