package c01

// The same verdicts through the entry point most users take: testscript.Run with a real *testing.T (the tshim adapter:
// Skip, FailNow, Run, Parallel of package testing), in a child `go test` process of this binary. What the child's
// testing package reports per subtest - PASS, FAIL, SKIP - and its exit status must be what the scripts' lines say.

import (
	"bytes"
	"fmt"
	"os"
	"os/exec"
	"path/filepath"
	"regexp"
	"strings"
	"testing"

	"github.com/rogpeppe/go-internal/testscript"
	"pgregory.net/rapid"

	"verif/tsgen"
	"verif/tskit"
	"verif/tsmodel"
	"verif/vt"
)

type goTestCase struct {
	Scripts  []tsgen.Script `json:"scripts"`
	Continue bool           `json:"continue"`
}

// TestInnerRun is what the child process runs; in the parent it does nothing.
func TestInnerRun(t *testing.T) {
	if os.Getenv("VERIF_ROLE") != "c01-inner" {
		t.Skip("child role only")
	}
	testscript.Run(t, testscript.Params{Dir: os.Getenv("VERIF_C01_DIR"), ContinueOnError: os.Getenv("VERIF_C01_CONTINUE") == "1"})
}

var resultLine = regexp.MustCompile(`(?m)^\s*--- (PASS|FAIL|SKIP): TestInnerRun/(s[0-9]+) `)

func checkGoTest(c goTestCase) *vt.Fail {
	if len(c.Scripts) == 0 || len(c.Scripts) > 6 {
		return nil
	}
	root := tskit.Scratch("c01gt")
	defer tskit.RemoveAll(root)
	dir := filepath.Join(root, "scripts")
	os.MkdirAll(dir, 0o777)
	want := map[string]string{}
	anyFail := false
	var preds []string
	for i, s := range c.Scripts {
		if !s.Representable() {
			return nil
		}
		s.P = tsmodel.Params{ContinueOnError: c.Continue}
		name := fmt.Sprintf("s%d", i)
		os.WriteFile(filepath.Join(dir, name+".txt"), s.Bytes(), 0o666)
		// neither the work directory nor the directory the child puts first on PATH is known in advance: only scripts
		// whose outcome does not depend on them are judged
		var res [2]tsmodel.Result
		for k, h := range []tsmodel.Host{
			{WorkAbs: "/WORKDIR", Path: "/nonexistent-a:" + os.Getenv("PATH"), Extra: hostFor("").Extra},
			{WorkAbs: "/tmp/zq-17/xk", Path: "/nonexistent-b/bin:" + os.Getenv("PATH"), Extra: hostFor("").Extra},
		} {
			res[k] = tsmodel.New(s.P, h, s.Files).Run(s.Text)
			if res[k].Unmodelled != "" {
				return nil
			}
		}
		if res[0].Verdict != res[1].Verdict || fmt.Sprint(res[0].FailLines) != fmt.Sprint(res[1].FailLines) {
			rec.Class("gotest:skipped-depends-on-work-path", 1)
			return nil
		}
		want[name] = map[string]string{"pass": "PASS", "fail": "FAIL", "skip": "SKIP"}[res[0].Verdict]
		preds = append(preds, name+":"+res[0].Verdict)
		if res[0].Verdict == "fail" {
			anyFail = true
		}
	}
	cmd := exec.Command(os.Args[0], "-test.run=^TestInnerRun$", "-test.v", "-test.count=1", "-test.timeout=40s")
	cmd.Env = append(os.Environ(), "VERIF_ROLE=c01-inner", "VERIF_C01_DIR="+dir, "VERIF_OUT=", "VERIF_REPLAY=", "TMPDIR="+root, "GOTMPDIR="+root)
	if c.Continue {
		cmd.Env = append(cmd.Env, "VERIF_C01_CONTINUE=1")
	}
	cmd.Dir = root
	var out bytes.Buffer
	cmd.Stdout = &out
	cmd.Stderr = &out
	err := cmd.Run()
	code := 0
	if err != nil {
		ee, ok := err.(*exec.ExitError)
		if !ok {
			rec.Infra("cannot run the child test process: %v", err)
			return nil
		}
		code = ee.ExitCode()
	}
	var texts []string
	for i, s := range c.Scripts {
		texts = append(texts, fmt.Sprintf("--- s%d ---\n%s", i, numbered(s.Text)))
	}
	ctx := fmt.Sprintf("\npredictions: %v (ContinueOnError=%v)\n%s\nchild output:\n%s", preds, c.Continue, strings.Join(texts, ""), trunc(out.String(), 2500))
	if strings.Contains(out.String(), "panic: test timed out after") {
		return blockedOrBusy("testscript.Run with a real testing.T did not end within 40 s on scripts that end by themselves" + ctx)
	}
	got := map[string]string{}
	for _, m := range resultLine.FindAllStringSubmatch(out.String(), -1) {
		got[m[2]] = m[1]
	}
	for name, w := range want {
		if got[name] != w {
			return vt.Failf("gotest-reports-"+strings.ToLower(w)+"-as-"+strings.ToLower(got[name]), "testscript.Run with a real testing.T: subtest %s is reported %q, the script's lines say %s%s", name, got[name], w, ctx)
		}
	}
	if anyFail != (code != 0) {
		return vt.Failf("gotest-exit-status", "testscript.Run with a real testing.T: a script failed = %v, but the test process exited %d%s", anyFail, code, ctx)
	}
	return nil
}

func TestGoTest(t *testing.T) {
	o := tsgen.Options{MaxLines: 10, FailProb: 50, Exec: true, Background: true, NoParams: true}
	vt.Run(t, rec, vt.Prop[goTestCase]{Kind: "gotest", Gen: func(t *rapid.T) goTestCase {
		c := goTestCase{Continue: rapid.IntRange(0, 3).Draw(t, "continue") == 0}
		for i, n := 0, rapid.IntRange(1, 4).Draw(t, "nscripts"); i < n; i++ {
			s := tsgen.Gen(t, o)
			s.P.ContinueOnError = c.Continue
			c.Scripts = append(c.Scripts, s)
		}
		return c
	}, Check: checkGoTest, Meta: func(c goTestCase) vt.Meta {
		return vt.Meta{NonTrivial: len(c.Scripts) > 1, Classes: []string{"go-test-entry-point"}}
	}}, vt.N(12, 200))
}
