package c01

import (
	"bytes"
	"fmt"
	"os"
	"os/exec"
	"path/filepath"
	"reflect"
	"sort"
	"strings"
	"testing"
	"time"

	"github.com/rogpeppe/go-internal/testscript"
	"pgregory.net/rapid"

	"verif/tsgen"
	"verif/tskit"
	"verif/tsmodel"
	"verif/txtarref"
	"verif/vt"
)

var rec = vt.New("C01")

func TestMain(m *testing.M) {
	testscript.Main(tskit.MainWrapper{M: m, After: rec.Flush}, tskit.Commands())
}

// ---- in-process check ----

func paramsFor(p tsmodel.Params, r *tskit.Recorder) testscript.Params {
	tp := testscript.Params{ContinueOnError: p.ContinueOnError, RequireExplicitExec: p.RequireExplicitExec, RequireUniqueNames: p.RequireUniqueNames, UpdateScripts: p.UpdateScripts}
	if p.CustomCmds {
		tp.Cmds = r.Cmds()
	}
	if p.CustomCond {
		tp.Condition = tskit.Condition
	}
	return tp
}

func hostFor(work string) tsmodel.Host {
	h := tsmodel.Host{WorkAbs: work, Path: os.Getenv("PATH"), Short: testing.Short(), Extra: map[string]string{}}
	for _, k := range []string{"GOCOVERDIR", "GORACE"} {
		if v := os.Getenv(k); v != "" {
			h.Extra[k] = v
		}
	}
	return h
}

var lastRes tsmodel.Result

// safetyDeadline ends a run that does not end by itself (only a changed library makes an accepted script block).
const safetyDeadline = 30 * time.Second

func blockedOrBusy(msg string) *vt.Fail { return vt.BlockedOrBusy(rec, msg) }

func checkScript(s tsgen.Script) *vt.Fail {
	lastRes = tsmodel.Result{}
	if s.Name == "" {
		s.Name = "s"
	}
	if !s.Representable() {
		return nil
	}
	// never run a script the model abstains on: it may wait for a process that never exits
	if pre := tsmodel.New(s.P, hostFor("/WORKDIR"), s.Files).Run(s.Text); pre.Unmodelled != "" {
		lastRes = pre
		return nil
	}
	root := tskit.Scratch("c01")
	defer tskit.RemoveAll(root)
	r := tskit.NewRecorder()
	ext, useDir := tskit.LayoutFor(s.Bytes())
	rr := tskit.RunInProcess(root, []tskit.ScriptFile{{Name: s.Name, Data: s.Bytes(), Ext: ext}}, tskit.RunOpts{Params: paramsFor(s.P, r), Retain: true, Deadline: safetyDeadline, UseDir: useDir})
	work := filepath.Join(rr.WorkRoot, "script-"+s.Name)
	m := tsmodel.New(s.P, hostFor(work), s.Files)
	want := m.Run(s.Text)
	lastRes = want
	if want.Unmodelled != "" {
		return nil
	}
	if rr.Top.Verdict != "pass" || len(rr.Subs) != 1 {
		return vt.Failf("runt-top-level", "RunT itself ended with %s (%s %s), %d subtests", rr.Top.Verdict, rr.Top.Log, rr.Top.Panic, len(rr.Subs))
	}
	sub := rr.Subs[0]
	ctx := fmt.Sprintf("\nscript:\n%s\nlog:\n%s", numbered(s.Text), trunc(sub.Log, 1500))
	if strings.Contains(sub.Log, "test timed out while running command") {
		// the reference interpreter only accepts scripts that end by themselves within milliseconds
		if f := blockedOrBusy("the script sat in a command until the harness's safety deadline (" + safetyDeadline.String() + ") interrupted it" + ctx); f != nil {
			return f
		}
		return nil
	}
	if strings.Contains(sub.Log, "text file busy") {
		// (ETXTBSY on a program the script has just installed: some other goroutine of this process forked while the file was
		// open for writing. The operating system's doing; such a run says nothing about the script.)
		rec.Class("script:installed-program-busy-skipped", 1)
		return nil
	}
	if sub.Verdict == "panic" {
		return vt.Failf("panic-escaped-runt", "a panic escaped the script run: %s%s", sub.Panic, ctx)
	}
	if sub.Verdict != want.Verdict {
		key := "verdict-" + want.Verdict + "-reported-" + sub.Verdict
		if want.Verdict == "fail" && sub.Verdict == "skip" && s.P.ContinueOnError {
			key = "continue-on-error-skip-hides-failure"
		}
		return vt.Failf(key, "run reported %s, but the script's lines say %s (failing lines %v %v)%s", sub.Verdict, want.Verdict, want.FailLines, want.FailClass, ctx)
	}
	if want.Verdict == "fail" && !want.SetupFail {
		got, msgs := tskit.FailLines(sub.Log, rr.Files[0])
		if !reflect.DeepEqual(got, want.FailLines) {
			return vt.Failf("wrong-failing-lines", "log names failing lines %v (%v), the script's failing lines are %v (%v)%s", got, msgs, want.FailLines, want.FailClass, ctx)
		}
	}
	// final tree
	tree := tskit.Snapshot(work, ".tmp")
	if d := diffTree(want.Tree, tree); d != "" {
		return vt.Failf("tree-differs", "work directory after the run differs from the script's effect: %s%s", d, ctx)
	}
	// probes, getenv observations, defers
	gotP := r.Probes[s.Name]
	if len(gotP) != len(want.Probes) {
		return vt.Failf("probe-records-differ", "probe ran %d times, expected %d (%v vs %v)%s", len(gotP), len(want.Probes), gotP, want.Probes, ctx)
	}
	for i := range gotP {
		if gotP[i].Neg != want.Probes[i].Neg || !eqStr(gotP[i].Args, want.Probes[i].Args) || gotP[i].Cwd != want.Probes[i].Cwd {
			return vt.Failf("probe-records-differ", "probe #%d saw %+v, expected %+v%s", i, gotP[i], want.Probes[i], ctx)
		}
	}
	if !reflect.DeepEqual(r.Envs[s.Name], want.Envs) && !(len(r.Envs[s.Name]) == 0 && len(want.Envs) == 0) {
		return vt.Failf("getenv-records-differ", "getenv saw %v, expected %v%s", r.Envs[s.Name], want.Envs, ctx)
	}
	if !eqStr(r.Defers[s.Name], want.Defers) {
		return vt.Failf("defers-differ", "deferred functions ran as %v, expected %v%s", r.Defers[s.Name], want.Defers, ctx)
	}
	return nil
}

func eqStr(a, b []string) bool {
	if len(a) != len(b) {
		return false
	}
	for i := range a {
		if a[i] != b[i] {
			return false
		}
	}
	return true
}

func numbered(text string) string {
	var b strings.Builder
	for i, l := range strings.Split(strings.TrimSuffix(text, "\n"), "\n") {
		fmt.Fprintf(&b, "%3d  %s\n", i+1, l)
	}
	return b.String()
}

func trunc(s string, n int) string {
	if len(s) > n {
		return s[:n] + "..."
	}
	return s
}

func diffTree(want map[string]tsmodel.Node, got map[string]tskit.Node) string {
	var ds []string
	for k, w := range want {
		g, ok := got[k]
		switch {
		case !ok:
			ds = append(ds, fmt.Sprintf("missing %s (%s)", k, w.Kind))
		case g.Kind != w.Kind:
			ds = append(ds, fmt.Sprintf("%s is a %s, expected %s", k, g.Kind, w.Kind))
		case w.Kind == "file" && g.Data != w.Data:
			ds = append(ds, fmt.Sprintf("%s holds %q, expected %q", k, trunc(g.Data, 80), trunc(w.Data, 80)))
		case w.Kind == "symlink" && g.Target != w.Target:
			ds = append(ds, fmt.Sprintf("%s -> %s, expected -> %s", k, g.Target, w.Target))
		case w.Kind != "symlink" && w.PermKnown && g.Perm != w.Perm:
			ds = append(ds, fmt.Sprintf("%s has mode %o, expected %o", k, g.Perm, w.Perm))
		}
	}
	for k, g := range got {
		if _, ok := want[k]; !ok {
			ds = append(ds, fmt.Sprintf("unexpected %s (%s)", k, g.Kind))
		}
	}
	sort.Strings(ds)
	if len(ds) > 6 {
		ds = append(ds[:6], "...")
	}
	return strings.Join(ds, "; ")
}

func metaScript(s tsgen.Script) vt.Meta {
	r := lastRes
	if r.Unmodelled != "" {
		return vt.Meta{Classes: []string{"unmodelled"}}
	}
	cl := []string{"verdict=" + r.Verdict}
	if len(r.FailClass) > 0 {
		cl = append(cl, "first-failure="+r.FailClass[0])
	}
	if s.P.ContinueOnError {
		cl = append(cl, "continue-on-error")
	}
	if s.P.CustomCmds {
		cl = append(cl, "custom-cmds")
	}
	if s.P.RequireExplicitExec {
		cl = append(cl, "require-explicit-exec")
	}
	if strings.Contains(s.Text, "exec zzprog") {
		cl = append(cl, "installs-a-program-of-its-own")
	}
	nt := r.Executed >= 1 && (r.Negated > 0 || r.Guarded > 0 || (len(r.FailLines) > 0 && r.FailLines[0] > 1) || r.Verdict == "skip" || strings.Contains(s.Text, "\nstop") || strings.Contains(s.Text, "wait"))
	return vt.Meta{NonTrivial: nt, Classes: cl}
}

func genOpts() tsgen.Options {
	return tsgen.Options{MaxLines: 25, FailProb: 60, Exec: true, Background: true, Custom: true, AllowChmod2: true, Tools: true}
}

func reduceScript(s tsgen.Script) []tsgen.Script {
	var out []tsgen.Script
	lines := strings.Split(strings.TrimSuffix(s.Text, "\n"), "\n")
	for _, ls := range vt.DropOne(lines) {
		d := s
		d.Text = strings.Join(ls, "\n") + "\n"
		if len(ls) == 0 {
			d.Text = ""
		}
		out = append(out, d)
	}
	for _, fs := range vt.DropOne(s.Files) {
		d := s
		d.Files = fs
		out = append(out, d)
	}
	return out
}

func TestScripts(t *testing.T) {
	vt.Run(t, rec, vt.Prop[tsgen.Script]{Kind: "script", Gen: func(t *rapid.T) tsgen.Script { return tsgen.Gen(t, genOpts()) }, Check: checkScript, Meta: metaScript, Reduce: reduceScript}, vt.N(500, 8000))
}

// ---- model validation on the repository's own scripts (they must be predicted to pass) ----

func TestModelOnRepoScripts(t *testing.T) {
	repo := os.Getenv("VERIF_REPO")
	if repo == "" {
		repo = "/repo"
	}
	files, _ := filepath.Glob(filepath.Join(repo, "testscript/testdata/*.txt"))
	agreed, unmodelled := 0, 0
	for _, f := range files {
		b, err := os.ReadFile(f)
		if err != nil {
			continue
		}
		a := xparse(b)
		var afs []tsmodel.ArchiveFile
		for _, e := range a.files {
			afs = append(afs, tsmodel.ArchiveFile{Name: e[0], Data: e[1]})
		}
		m := tsmodel.New(tsmodel.Params{}, hostFor("/WORKDIR"), afs)
		r := m.Run(a.comment)
		if r.Unmodelled != "" {
			unmodelled++
			continue
		}
		if r.Verdict == "fail" && (r.FailClass[0] == "unknown-command" || r.FailClass[0] == "unknown-condition") {
			unmodelled++ // the script uses commands or conditions private to the repository's own tests
			continue
		}
		if r.Verdict == "fail" {
			rec.Infra("model validation: the reference interpreter predicts FAIL at lines %v (%v) for the repository's passing script %s", r.FailLines, r.FailClass, filepath.Base(f))
			continue
		}
		agreed++
	}
	rec.Class("model-validation:repo-scripts-predicted-pass", int64(agreed))
	rec.Class("model-validation:repo-scripts-outside-model", int64(unmodelled))
}

type parsed struct {
	comment string
	files   [][2]string
}

func xparse(b []byte) parsed {
	a := txtarref.Parse(b)
	p := parsed{comment: string(a.Comment)}
	for _, f := range a.Files {
		p.files = append(p.files, [2]string{f.Name, string(f.Data)})
	}
	return p
}

// ---- standalone command ----

type cliCase struct {
	Scripts  []tsgen.Script `json:"scripts"`
	Continue bool           `json:"continue"`
	// Flags are further options of the command that must not change the exit status: -v, -work, -e=NAME.
	Flags []string `json:"flags,omitempty"`
	// Stdin is the index of the script handed over on standard input (as "-", or by giving no file at all when it is
	// the only one), counted from 1; 0 = none. TxtarExt: the script files are named .txtar.
	Stdin    int  `json:"stdin,omitempty"`
	TxtarExt bool `json:"txtar_ext,omitempty"`
}

func bin(name string) string {
	if b := os.Getenv("VERIF_BUILD"); b != "" {
		return filepath.Join(b, name)
	}
	return filepath.Join("/verif/.build", name)
}

func cliPath() string {
	// the directory testscript.Main put first on PATH holds vmain and vhelper; keep system tools, drop go
	first := strings.Split(os.Getenv("PATH"), ":")[0]
	return first + ":/usr/bin:/bin"
}

func checkCLI(c cliCase) *vt.Fail {
	if len(c.Scripts) == 0 {
		return nil
	}
	root := tskit.Scratch("c01cli")
	defer tskit.RemoveAll(root)
	var files []string
	anyFail := false
	var preds []string
	for i, s := range c.Scripts {
		if !s.Representable() {
			return nil
		}
		s.P = tsmodel.Params{ContinueOnError: c.Continue}
		name := fmt.Sprintf("s%d", i)
		ext := ".txt"
		if c.TxtarExt {
			ext = ".txtar"
		}
		f := filepath.Join(root, name+ext)
		os.WriteFile(f, s.Bytes(), 0o666)
		files = append(files, f)
		// the work directory is not known in advance: generated CLI scripts do not depend on its absolute name
		h := tsmodel.Host{WorkAbs: "/WORKDIR", Path: cliPath(), Extra: map[string]string{}, NoMainCmds: true}
		r := tsmodel.New(s.P, h, s.Files).Run(s.Text)
		if r.Unmodelled != "" {
			return nil
		}
		// the prediction must not depend on the (unknown) absolute name of the work directory
		h2 := h
		h2.WorkAbs = "/tmp/zq-17/xk"
		if r2 := tsmodel.New(s.P, h2, s.Files).Run(s.Text); r2.Unmodelled != "" || r2.Verdict != r.Verdict || fmt.Sprint(r2.FailLines) != fmt.Sprint(r.FailLines) {
			rec.Class("cli:skipped-depends-on-work-path", 1)
			return nil
		}
		if strings.Contains(s.Text, "[short]") || strings.Contains(s.Text, "[!short]") {
			// known finding: the standalone command panics on [short] (testing.Short before flag parsing)
			cliShort = true
		}
		preds = append(preds, fmt.Sprintf("%s:%s%v", name, r.Verdict, r.FailLines))
		if r.Verdict == "fail" {
			anyFail = true
		}
	}
	args := []string{}
	if c.Continue {
		args = append(args, "-continue")
	}
	for _, fl := range c.Flags {
		if fl == "-v" || fl == "-work" || fl == "-e=CLI_ONLY" {
			args = append(args, fl)
		}
	}
	var stdin []byte
	if c.Stdin >= 1 && c.Stdin <= len(files) {
		stdin, _ = os.ReadFile(files[c.Stdin-1])
		if len(files) == 1 && len(c.Flags)%2 == 0 {
			files = nil // no file argument at all means standard input
		} else {
			files[c.Stdin-1] = "-"
		}
	}
	args = append(args, files...)
	cmd := exec.Command(bin("testscript"), args...)
	cmd.Env = []string{"PATH=" + cliPath(), "HOME=" + root, "TMPDIR=" + root, "CLI_ONLY=set on the host"}
	cmd.Dir = root
	if stdin != nil {
		cmd.Stdin = bytes.NewReader(stdin)
	}
	var out bytes.Buffer
	cmd.Stdout = &out
	cmd.Stderr = &out
	if err := cmd.Start(); err != nil {
		rec.Infra("cannot run the testscript command: %v", err)
		return nil
	}
	killed := false
	timer := time.AfterFunc(safetyDeadline, func() { killed = true; cmd.Process.Kill() })
	err := cmd.Wait()
	timer.Stop()
	code := 0
	if err != nil {
		if ee, ok := err.(*exec.ExitError); ok {
			code = ee.ExitCode()
		} else {
			rec.Infra("cannot run the testscript command: %v", err)
			return nil
		}
	}
	if killed {
		return blockedOrBusy(fmt.Sprintf("the testscript command did not end within %v on scripts that end by themselves; predictions %v\noutput:\n%s", safetyDeadline, preds, trunc(out.String(), 1500)))
	}
	var texts []string
	for i, s := range c.Scripts {
		texts = append(texts, fmt.Sprintf("--- s%d ---\n%s", i, numbered(s.Text)))
	}
	ctx := fmt.Sprintf("\npredictions: %v\n%s\noutput:\n%s", preds, strings.Join(texts, ""), trunc(out.String(), 1500))
	if strings.Contains(out.String(), "testing: Short called before") {
		return vt.Failf("cli-panics-on-short-condition", "the standalone command panics on a [short] condition (exit %d)%s", code, ctx)
	}
	if anyFail && code == 0 {
		return vt.Failf("cli-exit-0-despite-failure", "a script failed but the testscript command exited 0%s", ctx)
	}
	if !anyFail && code != 0 {
		return vt.Failf("cli-nonzero-without-failure", "no script failed but the testscript command exited %d%s", code, ctx)
	}
	return nil
}

var cliShort bool

func TestCLI(t *testing.T) {
	if _, err := os.Stat(bin("testscript")); err != nil {
		rec.Infra("testscript binary not built: %v", err)
		t.Skip()
	}
	o := tsgen.Options{MaxLines: 12, FailProb: 50, Exec: true, Background: true, NoParams: true, Tools: true}
	vt.Run(t, rec, vt.Prop[cliCase]{Kind: "cli", Gen: func(t *rapid.T) cliCase {
		c := cliCase{Continue: rapid.IntRange(0, 3).Draw(t, "continue") == 0}
		c.Flags = rapid.SliceOfNDistinct(rapid.SampledFrom([]string{"-v", "-work", "-e=CLI_ONLY"}), 0, 3, rapid.ID[string]).Draw(t, "flags")
		c.TxtarExt = rapid.IntRange(0, 3).Draw(t, "txtarext") == 2
		n := rapid.IntRange(1, 3).Draw(t, "nscripts")
		if rapid.IntRange(0, 3).Draw(t, "usestdin") == 1 {
			c.Stdin = rapid.IntRange(1, n).Draw(t, "stdinidx")
		}
		for i := 0; i < n; i++ {
			s := tsgen.Gen(t, o)
			s.P.ContinueOnError = c.Continue
			c.Scripts = append(c.Scripts, s)
		}
		return c
	}, Check: checkCLI, Meta: func(c cliCase) vt.Meta {
		return vt.Meta{NonTrivial: len(c.Scripts) > 1 || c.Continue, Classes: []string{fmt.Sprintf("batch=%d", len(c.Scripts))}}
	}}, vt.N(15, 250))
}

var replayers = vt.Replayer{"script": vt.Decode(checkScript), "cli": vt.Decode(checkCLI), "gotest": vt.Decode(checkGoTest)}

func TestReplay(t *testing.T) { vt.Replay(t, rec, replayers) }
