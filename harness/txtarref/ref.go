// Package txtarref holds references for the txtar format written from its
// definition (package doc of txtar), independent of the code under test:
// a line-scan marker detector, a reference parser, and a small-scope
// enumerator of byte strings.
package txtarref

import (
	"bytes"
	"runtime"
	"strings"
	"sync"
)

// MarkerName reports whether line (without its terminating newline) is a file
// marker line and returns the name. One trailing CR is ignored (CRLF input).
func MarkerName(line []byte) (string, bool) {
	if n := len(line); n > 0 && line[n-1] == '\r' {
		line = line[:n-1]
	}
	if len(line) < 6 || !bytes.HasPrefix(line, []byte("-- ")) || !bytes.HasSuffix(line, []byte(" --")) {
		return "", false
	}
	name := strings.TrimSpace(string(line[3 : len(line)-3]))
	if name == "" {
		return "", false
	}
	return name, true
}

// Lines splits data into lines; each returned line excludes its newline. The
// final line counts whether or not it is terminated. term[i] tells whether
// line i was newline terminated in the input.
func Lines(data []byte) (lines [][]byte, term []bool) {
	for len(data) > 0 {
		i := bytes.IndexByte(data, '\n')
		if i < 0 {
			lines = append(lines, data)
			term = append(term, false)
			break
		}
		lines = append(lines, data[:i])
		term = append(term, true)
		data = data[i+1:]
	}
	return
}

// HasMarkerLine is reference R1: body contains a file marker line.
func HasMarkerLine(body []byte) bool {
	ls, _ := Lines(body)
	for _, l := range ls {
		if _, ok := MarkerName(l); ok {
			return true
		}
	}
	return false
}

// NearMarker reports whether some line starts with "-- " or ends with " --"
// (optionally before a CR): the non-triviality rule of C03/C14.
func NearMarker(data []byte) bool {
	ls, _ := Lines(data)
	for _, l := range ls {
		if n := len(l); n > 0 && l[n-1] == '\r' {
			l = l[:n-1]
		}
		if bytes.HasPrefix(l, []byte("-- ")) || bytes.HasSuffix(l, []byte(" --")) {
			return true
		}
	}
	return false
}

type File struct {
	Name string
	Data []byte
}
type Archive struct {
	Comment []byte
	Files   []File
}

// Parse is the reference parser: the comment is everything before the first
// marker line, each file's data everything up to the next marker line; a
// missing final newline is considered present.
func Parse(data []byte) Archive {
	var a Archive
	ls, _ := Lines(data)
	var cur []byte
	inFile := false
	flush := func() {
		if inFile {
			a.Files[len(a.Files)-1].Data = cur
		} else {
			a.Comment = cur
		}
		cur = nil
	}
	for _, l := range ls {
		if name, ok := MarkerName(l); ok {
			flush()
			a.Files = append(a.Files, File{Name: name})
			inFile = true
			continue
		}
		cur = append(cur, l...)
		cur = append(cur, '\n')
	}
	flush()
	return a
}

// Enum calls fn for every string over alphabet with length in [0,maxLen].
// Work is split over goroutines by the first two bytes; only the slice of the
// space belonging to (shard, nshards) is visited. fn must not retain the slice.
// The worker index is passed so callers can keep per-worker state.
func Enum(alphabet []byte, maxLen int, shard, nshards int, fn func(worker int, s []byte)) int64 {
	k := len(alphabet)
	type job struct{ prefix []byte }
	var jobs []job
	// strings shorter than 2 are handled by shard 0 directly
	var total int64
	var mu sync.Mutex
	if shard == 0 {
		fn(0, nil)
		total++
		if maxLen >= 1 {
			for _, c := range alphabet {
				fn(0, []byte{c})
				total++
			}
		}
	}
	if maxLen < 2 {
		return total
	}
	idx := 0
	for _, a := range alphabet {
		for _, b := range alphabet {
			if idx%nshards == shard {
				jobs = append(jobs, job{[]byte{a, b}})
			}
			idx++
		}
	}
	nw := runtime.GOMAXPROCS(0)
	if nshards > 1 {
		nw = 2
	}
	ch := make(chan job)
	var wg sync.WaitGroup
	for w := 0; w < nw; w++ {
		wg.Add(1)
		go func(w int) {
			defer wg.Done()
			buf := make([]byte, maxLen)
			var n int64
			for j := range ch {
				copy(buf, j.prefix)
				// enumerate all suffixes of length 0..maxLen-2
				var rec func(pos int)
				rec = func(pos int) {
					fn(w, buf[:pos])
					n++
					if pos == maxLen {
						return
					}
					for i := 0; i < k; i++ {
						buf[pos] = alphabet[i]
						rec(pos + 1)
					}
				}
				rec(2)
			}
			mu.Lock()
			total += n
			mu.Unlock()
		}(w)
	}
	for _, j := range jobs {
		ch <- j
	}
	close(ch)
	wg.Wait()
	return total
}
