package c07

import (
	"bytes"
	"encoding/json"
	"errors"
	"fmt"
	"hash/crc32"
	"io"
	"os"
	"path/filepath"
	"sort"
	"strconv"
	"strings"
	"sync"
	"sync/atomic"
	"testing"
	"time"

	"github.com/anishathalye/porcupine"
	"github.com/rogpeppe/go-internal/lockedfile"
	"pgregory.net/rapid"

	"verif/cachekit"
	lockedfilex "verif/gen/lockedfilex"
	"verif/rig"
	"verif/shim/fos"
	"verif/vt"
)

var rec = vt.New("C07")

func TestMain(m *testing.M) {
	if os.Getenv("VERIF_ROLE") == "c07-worker" {
		workerMain()
		return
	}
	vt.Main(m, rec)
}

// ---- self-describing values ----

// value builds the unique content "<id>|<len>|pad...|crc".
func value(id string, n int) []byte {
	hdr := fmt.Sprintf("%s|%d|", id, n)
	if n < len(hdr)+8 {
		n = len(hdr) + 8
		hdr = fmt.Sprintf("%s|%d|", id, n)
		if n < len(hdr)+8 {
			n = len(hdr) + 8
			hdr = fmt.Sprintf("%s|%d|", id, n)
		}
	}
	b := bytes.Repeat([]byte{'.'}, n)
	copy(b, hdr)
	for i := len(hdr); i < n-8; i++ {
		b[i] = byte('a' + (i*7+len(id))%26)
	}
	copy(b[n-8:], fmt.Sprintf("%08x", crc32.ChecksumIEEE(b[:n-8])))
	return b
}

// parse returns the id of a well-formed value, or "" if b is empty, truncated or mixed.
func parse(b []byte) string {
	parts := bytes.SplitN(b, []byte("|"), 3)
	if len(parts) != 3 {
		return ""
	}
	n, err := strconv.Atoi(string(parts[1]))
	if err != nil || n != len(b) || n < 8 {
		return ""
	}
	if string(b[n-8:]) != fmt.Sprintf("%08x", crc32.ChecksumIEEE(b[:n-8])) {
		return ""
	}
	return string(parts[0])
}

const initialID = "init"

// ---- (1) linearizability of recorded histories ----

type hop struct {
	Kind string `json:"kind"` // read | write | transform | transform-err
	Len  int    `json:"len"`  // length of the value written (write/transform)
	// Src (write): how the content reader hands out its bytes - all behaviours the io.Reader contract allows:
	// "" bytes.Reader (has WriteTo); "plain" everything asked for, then (0, EOF); "data-eof" the last bytes come together
	// with io.EOF (for a short value: the whole value in the first call); "chunks" 1-4096 bytes per call;
	// "zero-reads" (0, nil) now and then
	Src string `json:"src,omitempty"`
	// Hold (transform, transform-err): milliseconds the callback takes, so that other callers queue up on the lock
	Hold int `json:"hold,omitempty"`
}

// noValue is what a Read or a Transform callback observes when the file does not exist or is empty: legal only as
// long as no Write or Transform has completed (cases that start without the file: Init < 0).
const noValue = "NOVALUE"

var absentStart bool // this worker's case starts without the file
var writePerm os.FileMode = 0o666

type srcReader struct {
	data []byte
	mode string
	off  int
	n    int
}

func newSrc(data []byte, mode string) io.Reader {
	if mode == "" {
		return bytes.NewReader(data)
	}
	return &srcReader{data: data, mode: mode}
}

func (r *srcReader) Read(p []byte) (int, error) {
	r.n++
	if r.off >= len(r.data) {
		return 0, io.EOF
	}
	if len(p) == 0 {
		return 0, nil
	}
	max := len(p)
	switch r.mode {
	case "chunks":
		if c := 1 + (r.n*2654435761>>7)%4096; c < max {
			max = c
		}
	case "zero-reads":
		if r.n%3 == 1 {
			return 0, nil
		}
		if max > 1000 {
			max = 1000
		}
	}
	n := copy(p[:max], r.data[r.off:])
	r.off += n
	if r.mode == "data-eof" && r.off >= len(r.data) {
		return n, io.EOF
	}
	return n, nil
}

type linCase struct {
	Procs int     `json:"procs"`
	Progs [][]hop `json:"progs"` // per goroutine; goroutine g lives in process g % procs
	Init  int     `json:"init"`  // length of the initial value; < 0: the file does not exist at the start
	// Mode444: the file has no write permission bit - it is created that way, and every Write asks for that mode - which
	// keeps nobody who may open it for writing (the owner of a fresh file inside Write, or root at any time) from doing so.
	// Only exercised by root; otherwise an ordinary mode is used.
	Mode444 bool `json:"mode444,omitempty"`
}

type rec1 struct {
	Actor  int    `json:"actor"`
	Kind   string `json:"kind"`
	In     string `json:"in,omitempty"`  // id written
	Out    string `json:"out,omitempty"` // id observed (read / old of transform); "CORRUPT:<detail>" if unparsable
	Err    string `json:"err,omitempty"`
	Call   int64  `json:"call"`
	Return int64  `json:"ret"`
}

func describeCorrupt(b []byte) string {
	h := b
	if len(h) > 40 {
		h = h[:40]
	}
	return fmt.Sprintf("CORRUPT:%d bytes starting %q", len(b), h)
}

func runActor(path string, actor int, prog []hop) []rec1 {
	var out []rec1
	for i, o := range prog {
		id := fmt.Sprintf("a%d.%d", actor, i)
		r := rec1{Actor: actor, Kind: o.Kind}
		r.Call = rig.MonoNanos()
		switch o.Kind {
		case "read":
			b, err := lockedfile.Read(path)
			r.Return = rig.MonoNanos()
			if err != nil && absentStart && os.IsNotExist(err) {
				r.Out = noValue
			} else if err == nil && absentStart && len(b) == 0 {
				r.Out = noValue
			} else if err != nil {
				r.Err = err.Error()
			} else if v := parse(b); v != "" {
				r.Out = v
			} else {
				r.Out = describeCorrupt(b)
			}
		case "write":
			r.In = id
			err := lockedfile.Write(path, newSrc(value(id, o.Len), o.Src), writePerm)
			r.Return = rig.MonoNanos()
			if err != nil {
				r.Err = err.Error()
			}
		case "transform", "transform-err":
			r.In = id
			err := lockedfile.Transform(path, func(old []byte) ([]byte, error) {
				if v := parse(old); v != "" {
					r.Out = v
				} else if absentStart && len(old) == 0 {
					r.Out = noValue
				} else {
					r.Out = describeCorrupt(old)
				}
				if o.Hold > 0 && o.Hold <= 20 {
					time.Sleep(time.Duration(o.Hold) * time.Millisecond)
				}
				if o.Kind == "transform-err" {
					return nil, errors.New("callback refuses")
				}
				return value(id, o.Len), nil
			})
			r.Return = rig.MonoNanos()
			if err != nil && o.Kind != "transform-err" {
				r.Err = err.Error()
			}
		}
		out = append(out, r)
	}
	return out
}

func workerMain() {
	var c linCase
	json.Unmarshal([]byte(os.Getenv("VERIF_C07_CASE")), &c)
	absentStart = c.Init < 0
	if c.Mode444 {
		writePerm = 0o444
	}
	d := os.Getenv("VERIF_C07_DIR")
	var me int
	fmt.Sscan(os.Getenv("VERIF_C07_PROC"), &me)
	for i := 0; i < 20000; i++ {
		if _, err := os.Stat(filepath.Join(d, "go")); err == nil {
			break
		}
		time.Sleep(100 * time.Microsecond)
	}
	var wg sync.WaitGroup
	var mu sync.Mutex
	var all []rec1
	for g, prog := range c.Progs {
		if g%c.Procs != me {
			continue
		}
		wg.Add(1)
		go func(g int, prog []hop) {
			defer wg.Done()
			rs := runActor(filepath.Join(d, "file"), g, prog)
			mu.Lock()
			all = append(all, rs...)
			mu.Unlock()
		}(g, prog)
	}
	wg.Wait()
	rig.Emit(map[string]any{"history": all})
}

type regIn struct {
	kind string
	id   string
}
type regOut struct {
	id string // observed id (read/transform)
}

var modelInit = initialID

var registerModel = porcupine.Model{
	Init: func() interface{} { return modelInit },
	Step: func(state, input, output interface{}) (bool, interface{}) {
		in, out := input.(regIn), output.(regOut)
		switch in.kind {
		case "write":
			return true, in.id
		case "read":
			return state.(string) == out.id, state
		case "transform":
			return state.(string) == out.id, in.id
		case "transform-err":
			return state.(string) == out.id, state
		}
		return false, state
	},
	DescribeOperation: func(input, output interface{}) string {
		in, out := input.(regIn), output.(regOut)
		return fmt.Sprintf("%s(%s)->%s", in.kind, in.id, out.id)
	},
}

// judge decides a recorded history (deterministic; also used by --replay).
func judge(h []rec1, absent bool) *vt.Fail {
	written := map[string]bool{initialID: true}
	modelInit = initialID
	if absent {
		written = map[string]bool{noValue: true}
		modelInit = noValue
	}
	for _, r := range h {
		if r.In != "" && r.Kind != "transform-err" {
			written[r.In] = true
		}
	}
	for _, r := range h {
		if r.Err != "" {
			return vt.Failf("operation-error", "actor %d %s failed: %s", r.Actor, r.Kind, r.Err)
		}
		if strings.HasPrefix(r.Out, "CORRUPT") {
			return vt.Failf("torn-or-empty-contents", "actor %d %s observed contents that no single Write/Transform produced (%s)", r.Actor, r.Kind, r.Out)
		}
		if r.Out != "" && !written[r.Out] {
			return vt.Failf("unknown-value", "actor %d %s observed value %q that nobody wrote", r.Actor, r.Kind, r.Out)
		}
	}
	var ops []porcupine.Operation
	for _, r := range h {
		ops = append(ops, porcupine.Operation{ClientId: r.Actor, Input: regIn{r.Kind, r.In}, Output: regOut{r.Out}, Call: r.Call, Return: r.Return})
	}
	res := porcupine.CheckOperationsTimeout(registerModel, ops, 20*time.Second)
	switch res {
	case porcupine.Illegal:
		sort.Slice(h, func(i, j int) bool { return h[i].Call < h[j].Call })
		var sb strings.Builder
		base := int64(0)
		if len(h) > 0 {
			base = h[0].Call
		}
		for _, r := range h {
			fmt.Fprintf(&sb, "\n  [%8d,%8d]us a%d %s in=%s out=%s", (r.Call-base)/1000, (r.Return-base)/1000, r.Actor, r.Kind, r.In, r.Out)
		}
		return vt.Failf("not-linearizable", "the recorded history of Read/Write/Transform calls is not linearizable as an atomic register (stale read or lost update):%s", sb.String())
	case porcupine.Unknown:
		rec.Class("linearizability-check-timeout", 1)
	}
	return nil
}

type linReplay struct {
	linCase
	History []rec1 `json:"history,omitempty"`
}

var seq int64
var overlapTotal int64
var lastOverlap bool

func execLin(c linCase) ([]rec1, *vt.Fail) {
	d := filepath.Join(cachekit.Scratch(), fmt.Sprintf("c07l-%d-%d", os.Getpid(), atomic.AddInt64(&seq, 1)))
	os.MkdirAll(d, 0o777)
	defer os.RemoveAll(d)
	if c.Mode444 && os.Geteuid() != 0 {
		c.Mode444 = false
	}
	if c.Init >= 0 {
		os.WriteFile(filepath.Join(d, "file"), value(initialID, c.Init), 0o666)
		if c.Mode444 {
			os.Chmod(filepath.Join(d, "file"), 0o444)
		}
	}
	cj, _ := json.Marshal(c)
	var ws []rig.Worker
	for p := 0; p < c.Procs; p++ {
		ws = append(ws, rig.Worker{Role: "c07-worker", Env: []string{"VERIF_C07_CASE=" + string(cj), "VERIF_C07_DIR=" + d, fmt.Sprintf("VERIF_C07_PROC=%d", p)}})
	}
	go func() {
		time.Sleep(20 * time.Millisecond)
		os.WriteFile(filepath.Join(d, "go"), nil, 0o666)
	}()
	reports, errs, outs := rig.RunWorkers(ws, 90*time.Second)
	var h []rec1
	for i := range ws {
		if errs[i] != nil || len(reports[i]) == 0 {
			o := outs[i]
			if len(o) > 600 {
				o = o[len(o)-600:]
			}
			return nil, vt.Failf("HARNESS-worker", "worker %d: %v: %s", i, errs[i], o)
		}
		var r struct {
			History []rec1 `json:"history"`
		}
		json.Unmarshal([]byte(reports[i][len(reports[i])-1]), &r)
		h = append(h, r.History...)
	}
	// final state must be a single complete value
	fb, _ := os.ReadFile(filepath.Join(d, "file"))
	stores := c.Init >= 0
	for _, prog := range c.Progs {
		for _, o := range prog {
			if o.Kind == "write" || o.Kind == "transform" {
				stores = true
			}
		}
	}
	if parse(fb) == "" && stores {
		return h, vt.Failf("torn-or-empty-contents", "after all actors finished the file holds %s", describeCorrupt(fb))
	}
	return h, nil
}

func checkLin(c linReplay) *vt.Fail {
	if c.Procs < 1 || c.Procs > 6 || len(c.Progs) == 0 || len(c.Progs) > 24 {
		return nil
	}
	if len(c.History) > 0 {
		// replay: first re-judge the recorded history (deterministic), then try to reproduce
		if f := judge(c.History, c.Init < 0); f != nil {
			f.Msg = "(recorded history) " + f.Msg
			return f
		}
	}
	h, f := execLin(c.linCase)
	if f != nil {
		if strings.HasPrefix(f.Key, "HARNESS") {
			rec.Infra("%s", f.Msg)
			return nil
		}
		return f
	}
	// overlap statistic
	lastOverlap = false
	for i := range h {
		for j := range h {
			if i != j && h[i].Call < h[j].Return && h[j].Call < h[i].Return && (h[i].Kind != "read" || h[j].Kind != "read") {
				lastOverlap = true
			}
		}
	}
	if f := judge(h, c.Init < 0); f != nil {
		lastHistory = h
		return f
	}
	return nil
}

var lastHistory []rec1

func genLin(t *rapid.T) linReplay {
	c := linCase{Procs: rapid.IntRange(1, 3).Draw(t, "procs"), Init: rapid.SampledFrom([]int{30, 500, 70000, -1}).Draw(t, "init")}
	if rapid.IntRange(0, 5).Draw(t, "firstuse") == 3 {
		// the file does not exist yet: one caller's Transform fails (slowly) while others write, transform and read
		c.Init = -1
		c.Progs = append(c.Progs, []hop{{Kind: "transform-err", Hold: rapid.IntRange(1, 4).Draw(t, "hold0")}, {Kind: "read"}})
		for g, n := 0, rapid.IntRange(1, 4).Draw(t, "others"); g < n; g++ {
			first := hop{Kind: rapid.SampledFrom([]string{"write", "transform", "write"}).Draw(t, "fk"), Len: rapid.SampledFrom([]int{20, 200, 5000}).Draw(t, "flen")}
			prog := []hop{first}
			for k, m := 0, rapid.IntRange(0, 3).Draw(t, "more"); k < m; k++ {
				prog = append(prog, hop{Kind: rapid.SampledFrom([]string{"read", "transform-err", "read", "transform"}).Draw(t, "mk"), Len: 30, Hold: rapid.IntRange(0, 2).Draw(t, "mh")})
			}
			c.Progs = append(c.Progs, prog)
		}
		return linReplay{linCase: c}
	}
	ng := c.Procs * rapid.IntRange(1, 4).Draw(t, "gpp")
	if ng < 2 {
		ng = 2
	}
	c.Mode444 = rapid.IntRange(0, 5).Draw(t, "mode444") == 4
	budget := 40
	for g := 0; g < ng; g++ {
		var prog []hop
		for k, n := 0, rapid.IntRange(1, 8).Draw(t, "nops"); k < n && budget > 0; k++ {
			budget--
			o := hop{Kind: rapid.SampledFrom([]string{"read", "read", "write", "transform", "transform", "transform-err"}).Draw(t, "kind")}
			o.Len = rapid.SampledFrom([]int{20, 30, 200, 5000, 70000, 260000}).Draw(t, "len")
			if (o.Kind == "transform" || o.Kind == "transform-err") && rapid.IntRange(0, 5).Draw(t, "holds") == 2 {
				o.Hold = rapid.IntRange(1, 3).Draw(t, "hold")
			}
			if o.Kind == "write" {
				o.Src = rapid.SampledFrom([]string{"", "data-eof", "plain", "chunks", "zero-reads", "data-eof"}).Draw(t, "src")
			}
			prog = append(prog, o)
		}
		if len(prog) > 0 {
			c.Progs = append(c.Progs, prog)
		}
	}
	return linReplay{linCase: c}
}

func TestLinearizability(t *testing.T) {
	vt.Run(t, rec, vt.Prop[linReplay]{Kind: "history", Gen: genLin, Check: func(c linReplay) *vt.Fail {
		f := checkLin(c)
		return f
	}, Meta: func(c linReplay) vt.Meta {
		cl := []string{fmt.Sprintf("procs=%d", c.Procs)}
		if c.Init < 0 {
			cl = append(cl, "file-missing-at-start")
		}
		if c.Mode444 {
			cl = append(cl, "file-without-write-permission-bits")
		}
		return vt.Meta{NonTrivial: lastOverlap, Classes: cl}
	}, Finalize: func(c linReplay) linReplay {
		c.History = lastHistory
		return c
	}}, vt.N(60, 4000))
}

// ---- (2) truncate-before-lock probe ----

type truncCase struct {
	Writer string `json:"writer"` // write | create | openfile-trunc
	Len    int    `json:"len"`
}

func checkTrunc(c truncCase) *vt.Fail {
	d := filepath.Join(cachekit.Scratch(), fmt.Sprintf("c07t-%d-%d", os.Getpid(), atomic.AddInt64(&seq, 1)))
	os.MkdirAll(d, 0o777)
	defer os.RemoveAll(d)
	p := filepath.Join(d, "file")
	old := value("old", 300)
	os.WriteFile(p, old, 0o666)
	rl, err := lockedfile.Open(p)
	if err != nil {
		return vt.Failf("HARNESS-open", "%v", err)
	}
	done := make(chan error, 1)
	go func() {
		switch c.Writer {
		case "write":
			done <- lockedfile.Write(p, bytes.NewReader(value("new", c.Len)), 0o666)
		case "create":
			f, err := lockedfile.Create(p)
			if err == nil {
				f.Write(value("new", c.Len))
				err = f.Close()
			}
			done <- err
		default:
			f, err := lockedfile.OpenFile(p, os.O_WRONLY|os.O_TRUNC, 0)
			if err == nil {
				f.Write(value("new", c.Len))
				err = f.Close()
			}
			done <- err
		}
	}()
	rig.WaitBlocked(1, 40*time.Millisecond)
	time.Sleep(2 * time.Millisecond)
	var fail *vt.Fail
	for i := 0; i < 20 && fail == nil; i++ {
		got, _ := os.ReadFile(p)
		if !bytes.Equal(got, old) {
			fail = vt.Failf("changed-while-read-locked", "while a read lock is held, a concurrent %s changed the file to %s (truncation or write before the write lock was obtained)", c.Writer, describeCorrupt(got))
		}
		time.Sleep(200 * time.Microsecond)
	}
	rl.Close()
	select {
	case err := <-done:
		if err != nil && fail == nil {
			fail = vt.Failf("operation-error", "%s failed: %v", c.Writer, err)
		}
	case <-time.After(90 * time.Second):
		rec.Infra("writer did not finish within 90 s after the read lock was released")
	}
	return fail
}

func TestTruncateBeforeLock(t *testing.T) {
	if rec.Violations() > 0 {
		t.Skip()
	}
	n := vt.N(3, 60)
	var k int64
	for i := 0; i < n; i++ {
		for _, w := range []string{"write", "create", "openfile-trunc"} {
			k++
			rec.Eval(1)
			rec.NonTrivialDistinct(1)
			if !vt.CheckOne(rec, "trunc", truncCase{Writer: w, Len: 100 + 50*i}, checkTrunc) {
				return
			}
		}
	}
	rec.Class("truncate-probe", k)
}

// ---- (3) Transform fault enumeration on the instrumented package ----

type tfCase struct {
	OldLen int  `json:"old_len"`
	NewLen int  `json:"new_len"`
	CbErr  bool `json:"cb_err"`
	K      int  `json:"k"`
	Kind   int  `json:"kind"`
	Cut    int  `json:"cut"`
}

func plain(tag byte, n int) []byte {
	b := make([]byte, n)
	for i := range b {
		b[i] = tag + byte(i%23)
	}
	return b
}

var sawPartial string // set when the callback of the last runTransform was handed something else than the file's contents

func runTransform(c tfCase) (ops []fos.Op, terr error, final []byte, fail *vt.Fail) {
	sawPartial = ""
	d := filepath.Join(cachekit.Scratch(), fmt.Sprintf("c07f-%d", os.Getpid()))
	os.MkdirAll(d, 0o777)
	p := filepath.Join(d, "file")
	old, nw := plain('A', c.OldLen), plain('a', c.NewLen)
	os.Remove(p)
	if err := os.WriteFile(p, old, 0o666); err != nil {
		return nil, nil, nil, vt.Failf("HARNESS-write", "%v", err)
	}
	fos.Begin(fos.Plan{K: c.K, Kind: fos.Kind(c.Kind), Cut: c.Cut})
	func() {
		defer func() {
			if r := recover(); r != nil {
				fail = vt.Failf("transform-panic", "Transform panicked: %v", r)
			}
		}()
		terr = lockedfilex.Transform(p, func(got []byte) ([]byte, error) {
			if !bytes.Equal(got, old) {
				// a failed read cannot reach here; a short read taken for the whole would
				sawPartial = fmt.Sprintf("the callback was handed %d bytes, the file holds %d", len(got), len(old))
				return nil, fmt.Errorf("callback saw %d bytes, file holds %d", len(got), len(old))
			}
			if c.CbErr {
				return nil, errors.New("callback refuses")
			}
			return nw, nil
		})
	}()
	ops, _, _ = fos.End()
	final, _ = os.ReadFile(p)
	return
}

func checkTF(c tfCase) *vt.Fail {
	if c.OldLen < 0 || c.NewLen < 0 || c.OldLen > 1<<20 || c.NewLen > 1<<20 || (c.Kind != int(fos.None) && c.Kind != int(fos.FailBefore) && c.Kind != int(fos.ShortWriteThenFail) && c.Kind != int(fos.ShortRead)) {
		return nil
	}
	ops, terr, final, f := runTransform(c)
	if f != nil {
		return f
	}
	if sawPartial != "" {
		return vt.Failf("callback-saw-partial-contents", "Transform applied its function to something else than the latest contents: %s (old=%d bytes, fault op %d kind=%s cut=%d)", sawPartial, c.OldLen, c.K, fos.Kind(c.Kind), c.Cut)
	}
	if c.Kind == int(fos.ShortRead) && terr != nil && !c.CbErr {
		return vt.Failf("short-read-made-transform-fail", "a read that returned fewer bytes than asked for (no error) made Transform fail: %v (old=%d bytes, fault op %d cut=%d)", terr, c.OldLen, c.K, c.Cut)
	}
	old, nw := plain('A', c.OldLen), plain('a', c.NewLen)
	op := "none"
	if c.K >= 0 && c.K < len(ops) {
		op = ops[c.K].Desc
	}
	var tr []string
	for _, o := range ops {
		tr = append(tr, o.Desc)
	}
	ctx := fmt.Sprintf("old=%d bytes new=%d bytes callback-error=%v fault{op %d=%s kind=%s cut=%d} trace=%v", c.OldLen, c.NewLen, c.CbErr, c.K, op, fos.Kind(c.Kind), c.Cut, tr)
	if terr != nil {
		if !bytes.Equal(final, old) {
			return vt.Failf("not-rolled-back", "Transform returned %q but the file does not hold the previous contents (now %d bytes, first difference at %d). %s", terr, len(final), firstDiff(final, old), ctx)
		}
		return nil
	}
	if !bytes.Equal(final, nw) {
		return vt.Failf("success-but-wrong-contents", "Transform returned nil but the file does not hold the new contents (now %d bytes, first difference at %d). %s", len(final), firstDiff(final, nw), ctx)
	}
	return nil
}

func firstDiff(a, b []byte) int {
	for i := 0; i < len(a) && i < len(b); i++ {
		if a[i] != b[i] {
			return i
		}
	}
	if len(a) != len(b) {
		if len(a) < len(b) {
			return len(a)
		}
		return len(b)
	}
	return -1
}

func TestTransformFaults(t *testing.T) {
	if rec.Violations() > 0 {
		t.Skip()
	}
	rels := [][2]int{{0, 0}, {0, 7}, {10, 0}, {10, 4}, {10, 10}, {10, 25}, {600, 599}, {5, 70000}, {70000, 5}, {70000, 70001}}
	var runs, nt int64
	idx := 0
	for _, r := range rels {
		for _, cb := range []bool{false, true} {
			idx++
			if idx%vt.NShards() != vt.Shard() {
				continue
			}
			base := tfCase{OldLen: r[0], NewLen: r[1], CbErr: cb, K: -1}
			ops, _, _, f := runTransform(base)
			if f != nil {
				rec.Report("transform-fault", f, base)
				return
			}
			runs++
			if !vt.CheckOne(rec, "transform-fault", base, checkTF) {
				return
			}
			for k := range ops {
				kinds := []fos.Kind{fos.FailBefore}
				cuts := []int{0}
				if strings.HasPrefix(ops[k].Desc, "Read(") && r[0] > 1 {
					// a legal short read of 1 byte, and of half the contents
					for _, cut := range []int{1, r[0] / 2} {
						c := base
						c.K, c.Kind, c.Cut = k, int(fos.ShortRead), cut
						runs++
						if !vt.CheckOne(rec, "transform-fault", c, checkTF) {
							return
						}
					}
				}
				if ops[k].Write && ops[k].N > 0 {
					kinds = append(kinds, fos.ShortWriteThenFail)
					cuts = []int{0, 1, ops[k].N / 2, ops[k].N - 1}
				}
				for _, kind := range kinds {
					cs := []int{0}
					if kind == fos.ShortWriteThenFail {
						cs = cuts
					}
					seen := map[int]bool{}
					for _, cut := range cs {
						if cut < 0 || seen[cut] {
							continue
						}
						seen[cut] = true
						c := base
						c.K, c.Kind, c.Cut = k, int(kind), cut
						runs++
						if ops[k].Write && r[0] != r[1] {
							nt++
						}
						if !vt.CheckOne(rec, "transform-fault", c, checkTF) {
							return
						}
					}
				}
			}
		}
	}
	rec.Eval(runs)
	rec.NonTrivialDistinct(nt)
	rec.Class("transform-fault:runs", runs)
	rec.Class("transform-fault:at-write-step-with-length-change", nt)
	rec.Exhaustive(fmt.Sprintf("every file operation of Transform x {error, short write of 0,1,n/2,n-1 bytes then error} for %d old/new length relations x callback ok/error (this shard: %d runs)", len(rels), runs))
	rec.Sample("transform-fault", 2, tfCase{OldLen: 10, NewLen: 25, K: 3, Kind: int(fos.ShortWriteThenFail), Cut: 7})
}

var replayers = vt.Replayer{"history": vt.Decode(checkLin), "trunc": vt.Decode(checkTrunc), "transform-fault": vt.Decode(checkTF)}

func TestReplay(t *testing.T) { vt.Replay(t, rec, replayers) }
