// Package sched is a deterministic cooperative scheduler. Managed tasks are
// real goroutines, but only the one holding the baton runs; every shim
// operation (vsync, vatomic, vrand, fos in scheduled mode, explicit Yield) is
// a scheduling point at which the controller - running in the goroutine that
// called Run, so that all random draws stay inside the property library -
// picks the next runnable task through a Strategy.
package sched

import (
	"fmt"
	"runtime/debug"
	"time"
)

type state int

const (
	runnable state = iota
	blocked
	done
)

type Task struct {
	ID     int
	Name   string
	st     state
	resume chan struct{}
	Why    string // what the task is blocked on / about to do (for traces)
}

// Strategy decides scheduling and data choices.
type Strategy interface {
	// Pick returns the index into runnable of the task to run next. cur is the
	// index of the task that ran last if it is still runnable, else -1.
	// runnable is ordered by task id.
	Pick(runnable []*Task, cur int, step int) int
	// Data returns a value in [0,n) for a nondeterministic data choice.
	Data(n int) int
	// Spawned tells the strategy a new task exists.
	Spawned(t *Task)
}

type Sched struct {
	tasks   []*Task
	cur     *Task
	parked  chan struct{}
	strat   Strategy
	Steps   int
	maxStep int
	abort   bool
	trace   []string
	keep    bool
	panics  []string
	stuck   bool
}

// S is the scheduler of the run in progress (nil outside Run).
var S *Sched

type abortSentinel struct{}

type Result struct {
	Deadlock bool     // no task runnable but not all finished
	Blocked  []string // descriptions of blocked tasks at deadlock/overrun
	Steps    int
	Overrun  bool     // step budget exhausted (livelock or budget too small)
	Stuck    bool     // a task blocked outside the shims (watchdog): harness cannot control this code
	Panics   []string // panics raised by tasks
	Trace    []string
}

type Options struct {
	MaxSteps  int
	KeepTrace bool
	Watchdog  time.Duration
	// Observer, if set, is called by the controller before every scheduling decision
	// (all tasks are parked at that moment, so it may inspect shared state).
	Observer func()
}

// Active reports whether a scheduled run is in progress (shims fall back to pass-through otherwise).
func Active() bool { return S != nil }

// Run executes main as task 0 until all tasks finish, deadlock, or the step budget is used up.
func Run(strat Strategy, opt Options, main func()) Result {
	if opt.MaxSteps == 0 {
		opt.MaxSteps = 100000
	}
	if opt.Watchdog == 0 {
		// (long: on a machine that is kept busy by several other checks a single real file operation of a task has been
		// seen to take more than 20 s, and a run that gives up here ends the whole check as inconclusive)
		opt.Watchdog = 90 * time.Second
	}
	s := &Sched{parked: make(chan struct{}), strat: strat, maxStep: opt.MaxSteps, keep: opt.KeepTrace}
	S = s
	defer func() { S = nil }()
	s.spawn("main", main)
	var last *Task
	for {
		var rs []*Task
		alldone := true
		for _, t := range s.tasks {
			if t.st == runnable {
				rs = append(rs, t)
			}
			if t.st != done {
				alldone = false
			}
		}
		if alldone {
			return Result{Steps: s.Steps, Panics: s.panics, Trace: s.trace}
		}
		if len(rs) == 0 || s.Steps >= s.maxStep {
			res := Result{Deadlock: len(rs) == 0, Overrun: len(rs) != 0, Steps: s.Steps, Panics: s.panics, Trace: s.trace}
			for _, t := range s.tasks {
				if t.st != done {
					res.Blocked = append(res.Blocked, fmt.Sprintf("task %d (%s) %s: %s", t.ID, t.Name, map[state]string{runnable: "runnable", blocked: "blocked"}[t.st], t.Why))
				}
			}
			s.teardown()
			return res
		}
		if opt.Observer != nil {
			opt.Observer()
		}
		cur := -1
		for i, t := range rs {
			if t == last {
				cur = i
			}
		}
		i := 0
		if len(rs) > 1 {
			i = s.strat.Pick(rs, cur, s.Steps)
			if i < 0 || i >= len(rs) {
				i = 0
			}
		}
		t := rs[i]
		if s.keep {
			s.trace = append(s.trace, fmt.Sprintf("%d:%s", t.ID, t.Why))
		}
		s.Steps++
		s.cur = t
		last = t
		t.resume <- struct{}{}
		if !s.waitParked(opt.Watchdog) {
			return Result{Stuck: true, Steps: s.Steps, Panics: s.panics, Trace: s.trace}
		}
	}
}

func (s *Sched) waitParked(d time.Duration) bool {
	select {
	case <-s.parked:
		return true
	case <-time.After(d):
		s.stuck = true
		return false
	}
}

func (s *Sched) teardown() {
	s.abort = true
	for _, t := range s.tasks {
		if t.st != done {
			s.cur = t
			t.resume <- struct{}{}
			if !s.waitParked(5 * time.Second) {
				return
			}
		}
	}
}

func (s *Sched) spawn(name string, f func()) *Task {
	t := &Task{ID: len(s.tasks), Name: name, resume: make(chan struct{}), Why: "start"}
	s.tasks = append(s.tasks, t)
	s.strat.Spawned(t)
	go func() {
		<-t.resume
		defer func() {
			r := recover()
			t.st = done
			if r != nil {
				if _, ok := r.(abortSentinel); !ok {
					st := string(debug.Stack())
					if len(st) > 1200 {
						st = st[:1200]
					}
					s.panics = append(s.panics, fmt.Sprintf("task %d (%s): %v\n%s", t.ID, t.Name, r, st))
				}
			}
			s.parked <- struct{}{}
		}()
		if s.abort {
			panic(abortSentinel{})
		}
		f()
	}()
	return t
}

// Go starts f as a new managed task (replacement for the go statement).
func Go(f func()) {
	if S == nil {
		go f()
		return
	}
	YieldWhy("go")
	S.spawn("go", f)
}

// GoNamed is Go with a task name for traces.
func GoNamed(name string, f func()) {
	if S == nil {
		go f()
		return
	}
	YieldWhy("go " + name)
	S.spawn(name, f)
}

func (s *Sched) park() {
	t := s.cur
	s.parked <- struct{}{}
	<-t.resume
	if s.abort {
		panic(abortSentinel{})
	}
}

// Yield is a scheduling point: the current task stays runnable.
func Yield() { YieldWhy("yield") }

func YieldWhy(why string) {
	if S == nil {
		return
	}
	S.cur.Why = why
	S.park()
}

// Cur returns the running task.
func Cur() *Task {
	if S == nil {
		return nil
	}
	return S.cur
}

// Block parks the current task until another task calls Wake on it.
func Block(why string) {
	S.cur.st = blocked
	S.cur.Why = why
	S.park()
}

// Wake makes t runnable again.
func Wake(t *Task) {
	if t.st == blocked {
		t.st = runnable
	}
}

// Choose lets shims make a nondeterministic data choice.
func Choose(n int) int {
	if n <= 1 || S == nil {
		return 0
	}
	v := S.strat.Data(n)
	if v < 0 || v >= n {
		v = 0
	}
	return v
}

// Step returns the current step number (a logical clock for observers).
func Step() int {
	if S == nil {
		return 0
	}
	return S.Steps
}

// NumBlocked reports how many tasks are currently blocked.
func NumBlocked() int {
	n := 0
	for _, t := range S.tasks {
		if t.st == blocked {
			n++
		}
	}
	return n
}

// BlockedOn counts the tasks currently blocked with a reason starting with prefix.
func BlockedOn(prefix string) int {
	if S == nil {
		return 0
	}
	n := 0
	for _, t := range S.tasks {
		if t.st == blocked && len(t.Why) >= len(prefix) && t.Why[:len(prefix)] == prefix {
			n++
		}
	}
	return n
}

// NumTasks returns the number of tasks spawned so far in the current run.
func NumTasks() int {
	if S == nil {
		return 0
	}
	return len(S.tasks)
}

// IsBlocked reports whether task id is currently blocked.
func IsBlocked(id int) bool {
	if S == nil || id < 0 || id >= len(S.tasks) {
		return false
	}
	return S.tasks[id].st == blocked
}
