package sched

// ---- (a) explicit choice sequence ----

// Seq schedules by an explicit byte sequence. A scheduling value v picks
// runnable[(base+v) mod n] where base is the task that ran last (so 0 means
// "no preemption"); when the sequence is exhausted the last task continues.
// Data choices come from a second sequence (0 when exhausted).
type Seq struct {
	Sched []uint8
	Data_ []uint8
	sp    int
	dp    int
	Taken []uint8 // scheduling choices actually taken (normalised), for replay files
}

func (s *Seq) Pick(rs []*Task, cur int, step int) int {
	v := 0
	if s.sp < len(s.Sched) {
		v = int(s.Sched[s.sp])
		s.sp++
	}
	base := cur
	if base < 0 {
		base = 0
	}
	i := (base + v) % len(rs)
	s.Taken = append(s.Taken, uint8(v%len(rs)))
	return i
}
func (s *Seq) Data(n int) int {
	v := 0
	if s.dp < len(s.Data_) {
		v = int(s.Data_[s.dp]) % n
		s.dp++
	}
	return v
}
func (s *Seq) Spawned(*Task) {}

// ---- (b) PCT: random priorities with d priority-change points ----

type PCT struct {
	Prio    []uint8 // initial priority per task in spawn order (cycled)
	Changes []int   // steps at which the running task's priority drops below all others
	Data_   []uint8
	dp      int
	prio    map[int]int
	low     int
}

func (p *PCT) Spawned(t *Task) {
	if p.prio == nil {
		p.prio = map[int]int{}
	}
	v := 128
	if len(p.Prio) > 0 {
		v = int(p.Prio[t.ID%len(p.Prio)])
	}
	p.prio[t.ID] = 1000 + v*64 + (63 - t.ID%64) // distinct priorities
}
func (p *PCT) Pick(rs []*Task, cur int, step int) int {
	for _, c := range p.Changes {
		if c == step && cur >= 0 {
			p.low--
			p.prio[rs[cur].ID] = p.low
		}
	}
	best := 0
	for i, t := range rs {
		if p.prio[t.ID] > p.prio[rs[best].ID] {
			best = i
		}
	}
	return best
}
func (p *PCT) Data(n int) int {
	v := 0
	if p.dp < len(p.Data_) {
		v = int(p.Data_[p.dp]) % n
		p.dp++
	}
	return v
}

// ---- (c) bounded exhaustive enumeration (stateless DFS with a preemption bound) ----

type point struct {
	n         int  // number of options
	chosen    int  // option taken in the current execution
	sched     bool // scheduling point (else data choice)
	cur       int  // index of the non-preempting option (-1: none, any choice is free)
	preBefore int  // preemptions used before this point
}

// Exhaustive enumerates all executions with at most MaxPreempt preemptions.
// Usage: e := &Exhaustive{MaxPreempt: 2}; for e.Next() { Run(e, ...) }.
type Exhaustive struct {
	MaxPreempt int
	stack      []point
	pos        int
	pre        int
	started    bool
	Runs       int
	// Budget stops the enumeration after this many runs (0 = unlimited); Truncated is set if it was hit.
	Budget    int
	Truncated bool
}

// Next prepares the next execution; it returns false when the space is exhausted.
func (e *Exhaustive) Next() bool {
	if !e.started {
		e.started = true
		e.pos, e.pre = 0, 0
		e.Runs++
		return true
	}
	if e.Budget > 0 && e.Runs >= e.Budget {
		e.Truncated = true
		return false
	}
	// drop the unexplored tail beyond what the last run visited
	e.stack = e.stack[:e.pos]
	for len(e.stack) > 0 {
		p := &e.stack[len(e.stack)-1]
		advanced := false
		for c := p.chosen + 1; c < p.n; c++ {
			cost := 0
			if p.sched && p.cur >= 0 && c != p.cur {
				cost = 1
			}
			if p.preBefore+cost <= e.MaxPreempt {
				p.chosen = c
				advanced = true
				break
			}
		}
		if advanced {
			e.pos, e.pre = 0, 0
			e.Runs++
			return true
		}
		e.stack = e.stack[:len(e.stack)-1]
	}
	return false
}

func (e *Exhaustive) choice(n int, sched bool, cur int) int {
	if e.pos < len(e.stack) {
		p := &e.stack[e.pos]
		// replay (the program is deterministic given the choices, so n matches)
		if p.n != n {
			// non-determinism outside the scheduler's control: restart this point
			e.stack = e.stack[:e.pos]
		} else {
			e.pos++
			if p.sched && p.cur >= 0 && p.chosen != p.cur {
				e.pre++
			}
			return p.chosen
		}
	}
	// new point: first option in exploration order. Order options so that the
	// non-preempting one comes first: we store chosen as the real index, and
	// iterate indexes 0..n-1; the default is cur if available.
	first := 0
	if sched && cur >= 0 {
		first = cur
	}
	// To keep "chosen+1.." iteration simple we rotate: explore order is first, then others ascending.
	// Implemented by storing a virtual index: virtual 0 -> first, virtual k -> k-1 if k-1 < first else k.
	e.stack = append(e.stack, point{n: n, chosen: 0, sched: sched, cur: -1, preBefore: e.pre})
	p := &e.stack[len(e.stack)-1]
	if sched && cur >= 0 {
		p.cur = 0 // virtual index of the non-preempting option
	}
	p.chosen = 0
	e.pos++
	_ = first
	return 0
}

func virt2real(v, first int) int {
	if v == 0 {
		return first
	}
	if v-1 < first {
		return v - 1
	}
	return v
}

func (e *Exhaustive) Pick(rs []*Task, cur int, step int) int {
	first := 0
	if cur >= 0 {
		first = cur
	}
	v := e.choice(len(rs), true, cur)
	return virt2real(v, first)
}
func (e *Exhaustive) Data(n int) int { return e.choice(n, false, -1) }
func (e *Exhaustive) Spawned(*Task)  {}
