// Package tsmodel is an independent reference interpreter for the testscript
// language, written from testscript/doc.go and the statements of properties
// C01/C02/C16. It evaluates the artifact (script text + archive + params) and
// predicts verdict, failing lines, final file tree and custom-command
// observations. Anything outside the modelled sub-language makes the model
// report Unmodelled, and such cases are skipped (never judged).
package tsmodel

import (
	"fmt"
	"regexp"
	"strings"
)

// ErrUnterminated is returned by Tokenize for an unterminated quoted argument.
var ErrUnterminated = fmt.Errorf("unterminated quoted argument")

// ErrUnmodelledSyntax marks lines using syntax the statement does not define.
type ErrUnmodelledSyntax struct{ Why string }

func (e *ErrUnmodelledSyntax) Error() string { return "unmodelled syntax: " + e.Why }

func isNameByte(c byte) bool {
	return c == '_' || c >= '0' && c <= '9' || c >= 'a' && c <= 'z' || c >= 'A' && c <= 'Z'
}

// expandChunk expands $NAME, ${NAME}, ${NAME@R} and $$ in unquoted text.
func expandChunk(s string, getenv func(string) string) (string, error) {
	var b strings.Builder
	for i := 0; i < len(s); i++ {
		c := s[i]
		if c != '$' {
			b.WriteByte(c)
			continue
		}
		if i+1 >= len(s) {
			return "", &ErrUnmodelledSyntax{"lone $ at end of word"}
		}
		switch n := s[i+1]; {
		case n == '$':
			b.WriteString(getenv("$"))
			i++
		case n == '{':
			j := strings.IndexByte(s[i+2:], '}')
			if j < 0 {
				return "", &ErrUnmodelledSyntax{"${ without }"}
			}
			name := s[i+2 : i+2+j]
			if name == "" {
				return "", &ErrUnmodelledSyntax{"${}"}
			}
			if strings.ContainsAny(name, "${ \t'") {
				return "", &ErrUnmodelledSyntax{"odd ${...} name"}
			}
			if k := strings.TrimSuffix(name, "@R"); k != name {
				b.WriteString(regexp.QuoteMeta(getenv(k)))
			} else {
				b.WriteString(getenv(name))
			}
			i += 2 + j
		case isNameByte(n):
			j := i + 1
			for j < len(s) && isNameByte(s[j]) {
				j++
			}
			b.WriteString(getenv(s[i+1 : j]))
			i = j - 1
		default:
			return "", &ErrUnmodelledSyntax{fmt.Sprintf("$ followed by %q", n)}
		}
	}
	return b.String(), nil
}

// Tokenize splits a script line into words per the documented rules: words are
// separated by unquoted spaces and tabs; single quotes quote literally (” is a
// quote character); an unquoted # ends the line; variables are expanded outside
// quotes only and the result is neither re-split nor re-expanded.
func Tokenize(line string, getenv func(string) string) ([]string, error) {
	var words []string
	var cur strings.Builder
	inWord := false
	chunkStart := -1 // start of the current unquoted chunk
	flushChunk := func(end int) error {
		if chunkStart >= 0 {
			x, err := expandChunk(line[chunkStart:end], getenv)
			if err != nil {
				return err
			}
			cur.WriteString(x)
			chunkStart = -1
		}
		return nil
	}
	i := 0
	for i < len(line) {
		c := line[i]
		switch {
		case c == ' ' || c == '\t' || c == '#':
			if err := flushChunk(i); err != nil {
				return nil, err
			}
			if inWord {
				words = append(words, cur.String())
				cur.Reset()
				inWord = false
			}
			if c == '#' {
				return words, nil
			}
			i++
		case c == '\r':
			return nil, &ErrUnmodelledSyntax{"unquoted carriage return"}
		case c == '\'':
			if err := flushChunk(i); err != nil {
				return nil, err
			}
			inWord = true
			i++
			for {
				j := strings.IndexByte(line[i:], '\'')
				if j < 0 {
					return nil, ErrUnterminated
				}
				cur.WriteString(line[i : i+j])
				i += j + 1
				if i < len(line) && line[i] == '\'' {
					cur.WriteByte('\'')
					i++
					continue
				}
				break
			}
		default:
			if chunkStart < 0 {
				chunkStart = i
			}
			inWord = true
			i++
		}
	}
	if err := flushChunk(len(line)); err != nil {
		return nil, err
	}
	if inWord {
		words = append(words, cur.String())
	}
	return words, nil
}
