package tsmodel

import (
	"fmt"
	"path"
	"regexp"
	"runtime"
	"sort"
	"strconv"
	"strings"
	"unicode/utf8"

	"verif/tskit"
	"verif/txtarref"
)

// Params mirrors the testscript.Params fields inside the quantifier.
type Params struct {
	ContinueOnError     bool `json:"continue_on_error,omitempty"`
	RequireExplicitExec bool `json:"require_explicit_exec,omitempty"`
	RequireUniqueNames  bool `json:"require_unique_names,omitempty"`
	CustomCmds          bool `json:"custom_cmds,omitempty"`
	CustomCond          bool `json:"custom_cond,omitempty"`
	UpdateScripts       bool `json:"update_scripts,omitempty"`
}

// Host describes facts of the machine/run the model needs.
type Host struct {
	WorkAbs  string            // absolute $WORK of this script
	Path     string            // PATH the script gets
	Short    bool              // testing.Short()
	SetupEnv []string          // variables appended by Params.Setup (key=value, in order)
	Extra    map[string]string // pass-through variables (GOCOVERDIR, GORACE) when set on the host
	// NoMainCmds: the helper names are not registered as script commands (standalone testscript command).
	NoMainCmds bool
}

type Node struct {
	Kind      string // dir | file | symlink
	Data      string
	Target    string
	Perm      uint32
	PermKnown bool
}

type bgProc struct {
	name      string
	neg       bool
	block     bool
	exitOnInt bool
	res       tskit.HelperResult
	sig       string // "", KILL, INT
	cwd       string
}

type ArchiveFile struct {
	Name string
	Data string
}

// Result is the model's prediction.
type Result struct {
	Unmodelled string // non-empty: the script left the modelled sub-language (at or before this point)
	Verdict    string // pass | fail | skip
	FailLines  []int
	FailClass  []string
	SetupFail  bool
	Tree       map[string]Node
	Probes     []tskit.ProbeRec
	Envs       []tskit.EnvRec
	Std        []string // stdout buffers seen by the custom recstd command
	Defers     []string // order in which defer tags run
	Updates    map[string]string
	Executed   int // lines executed (non-comment, non-blank, guards held)
	Guarded    int // lines skipped by a condition
	Negated    int
	Background int
}

type Model struct {
	P      Params
	H      Host
	fs     map[string]*Node
	cwd    string
	envK   []string
	envV   map[string]string
	stdin  string
	stdout string
	stderr string
	bg     []*bgProc
	res    Result
	failed bool
	stop   bool
	skip   bool
	lineno int
	defers []string
	files  map[string]string // rel path -> archive entry name (first mapping wins as in the code: later entry overwrites map too)
	dead   bool              // stop evaluating (unmodelled or fatal)
	ended  bool              // a line failed without ContinueOnError
}

type lineOutcome int

const (
	lineOK lineOutcome = iota
	lineFail
)

type failure struct{ class string }

func (m *Model) unmodelled(format string, args ...any) {
	if m.res.Unmodelled == "" {
		m.res.Unmodelled = fmt.Sprintf("line %d: ", m.lineno) + fmt.Sprintf(format, args...)
	}
	m.dead = true
	panic(unmodelledPanic{})
}

type unmodelledPanic struct{}
type failPanic struct{ class string }
type skipPanic struct{}

func (m *Model) fail(class string) { panic(failPanic{class}) }

// New builds the model state after setup (archive extraction, environment).
func New(p Params, h Host, archive []ArchiveFile) *Model {
	m := &Model{P: p, H: h, fs: map[string]*Node{".": {Kind: "dir"}, ".tmp": {Kind: "dir"}}, cwd: ".", envV: map[string]string{}, files: map[string]string{}}
	m.res.Updates = map[string]string{}
	set := func(k, v string) { m.setenv(k, v) }
	set("WORK", h.WorkAbs)
	set("PATH", h.Path)
	set("GOTRACEBACK", "system")
	set("HOME", "/no-home")
	set("TMPDIR", h.WorkAbs+"/.tmp")
	set("devnull", "/dev/null")
	set("/", "/")
	set(":", ":")
	set("$", "$")
	for _, k := range []string{"GOCOVERDIR", "GORACE"} {
		if v, ok := h.Extra[k]; ok && v != "" {
			set(k, v)
		}
	}
	set("exe", "")
	func() {
		defer m.recoverTo(func(fp failPanic) {
			m.res.SetupFail = true
			m.failed = true
			m.res.Verdict = "fail"
			m.dead = true
		})
		for _, f := range archive {
			name, err := expandChunk(f.Name, m.getenv)
			if err != nil {
				m.unmodelled("archive entry name %q: %v", f.Name, err)
			}
			rel := m.rel(name)
			if n := m.fs[rel]; n != nil {
				if n.Kind != "file" {
					m.unmodelled("archive entry %q collides with a directory", f.Name)
				}
				if p.RequireUniqueNames {
					m.fail("duplicate-archive-name")
				}
			}
			m.mkdirAll(path.Dir(rel))
			m.fs[rel] = &Node{Kind: "file", Data: f.Data}
			m.files[rel] = f.Name
		}
	}()
	for _, kv := range h.SetupEnv {
		if i := strings.Index(kv, "="); i > 0 {
			set(kv[:i], kv[i+1:])
		}
	}
	return m
}

func (m *Model) recoverTo(onFail func(failPanic)) {
	switch e := recover().(type) {
	case nil:
	case unmodelledPanic:
	case failPanic:
		onFail(e)
	case skipPanic:
		m.skip = true
	default:
		panic(e)
	}
}

func (m *Model) setenv(k, v string) {
	if _, ok := m.envV[k]; !ok {
		m.envK = append(m.envK, k)
	}
	m.envV[k] = v
}
func (m *Model) getenv(k string) string { return m.envV[k] }

// Env returns the effective environment (last assignment wins), sorted.
func (m *Model) Env() map[string]string {
	out := map[string]string{}
	for k, v := range m.envV {
		out[k] = v
	}
	return out
}

// ---- paths ----

// rel maps a script path (relative to cwd, or absolute below $WORK) to a clean path relative to $WORK.
func (m *Model) rel(p string) string {
	if p == "" {
		// MkAbs("") = cwd
		return m.cwd
	}
	if strings.HasPrefix(p, "/") {
		cp := path.Clean(p)
		w := path.Clean(m.H.WorkAbs)
		if cp == w {
			return "."
		}
		if strings.HasPrefix(cp, w+"/") {
			return cp[len(w)+1:]
		}
		m.unmodelled("absolute path outside $WORK: %q", p)
	}
	r := path.Join(m.cwd, p)
	if r == ".." || strings.HasPrefix(r, "../") {
		m.unmodelled("path leaves $WORK: %q", p)
	}
	return r
}

func (m *Model) abs(rel string) string {
	if rel == "." {
		return m.H.WorkAbs
	}
	return m.H.WorkAbs + "/" + rel
}

// checkParents makes sure every proper ancestor of rel is a directory; it returns false if one is missing.
func (m *Model) parentsOK(rel string) (exists bool) {
	for d := path.Dir(rel); d != "."; d = path.Dir(d) {
		n := m.fs[d]
		if n == nil {
			return false
		}
		if n.Kind != "dir" {
			m.unmodelled("path component %q is not a directory", d)
		}
	}
	return true
}

func (m *Model) mkdirAll(rel string) {
	if rel == "." {
		return
	}
	var todo []string
	for d := rel; d != "."; d = path.Dir(d) {
		todo = append(todo, d)
	}
	for i := len(todo) - 1; i >= 0; i-- {
		d := todo[i]
		n := m.fs[d]
		if n == nil {
			m.fs[d] = &Node{Kind: "dir"}
		} else if n.Kind != "dir" {
			m.unmodelled("mkdir through non-directory %q", d)
		}
	}
}

// lookup returns the node at rel (no symlink following); nil if missing.
func (m *Model) lookup(rel string) *Node {
	if !m.parentsOK(rel) {
		return nil
	}
	return m.fs[rel]
}

// stat follows a final symlink once (targets are relative to the link's directory); nil = does not exist.
func (m *Model) stat(rel string) *Node {
	n := m.lookup(rel)
	if n != nil && n.Kind == "symlink" {
		if strings.HasPrefix(n.Target, "/") {
			m.unmodelled("absolute symlink target")
		}
		t := path.Join(path.Dir(rel), n.Target)
		if t == ".." || strings.HasPrefix(t, "../") {
			m.unmodelled("symlink leaves $WORK")
		}
		tn := m.lookup(t)
		if tn != nil && tn.Kind == "symlink" {
			m.unmodelled("symlink chain")
		}
		return tn
	}
	return n
}

// plainFile returns the regular file at rel, failing the line if missing; symlinks/dirs are unmodelled.
func (m *Model) readFile(arg string, class string) string {
	rel := m.rel(arg)
	n := m.lookup(rel)
	if n == nil {
		m.fail(class)
	}
	if n.Kind == "dir" {
		// there is something there, but it cannot be read as a file: the command does not meet its demand
		m.fail(class)
	}
	if n.Kind != "file" {
		m.unmodelled("reading non-regular %q", arg)
	}
	return n.Data
}

func (m *Model) removeTree(rel string) {
	for k := range m.fs {
		if k == rel || strings.HasPrefix(k, rel+"/") {
			delete(m.fs, k)
		}
	}
}

// ---- conditions ----

var knownOS = strings.Fields("aix android darwin dragonfly freebsd hurd illumos ios js linux nacl netbsd openbsd plan9 solaris windows zos")
var knownArch = strings.Fields("386 amd64 amd64p32 arm armbe arm64 arm64be loong64 mips mipsle mips64 mips64le mips64p32 mips64p32le ppc ppc64 ppc64le riscv riscv64 s390 s390x sparc sparc64 wasm")
var goVersionRe = regexp.MustCompile(`^go([1-9][0-9]*)\.([1-9][0-9]*)$`)

func in(xs []string, x string) bool {
	for _, y := range xs {
		if x == y {
			return true
		}
	}
	return false
}

// HelperNames are the program names the harness puts on PATH.
var HelperNames = []string{"vmain", "vhelper"}

func (m *Model) condition(cond string) bool {
	switch {
	case cond == "short":
		return m.H.Short
	case cond == "net":
		m.unmodelled("[net] depends on the host")
	case cond == "link", cond == "symlink":
		return true
	case in(knownOS, cond):
		return cond == runtime.GOOS
	case cond == "unix":
		return true
	case in(knownArch, cond):
		return cond == runtime.GOARCH
	case strings.HasPrefix(cond, "exec:"):
		prog := cond[len("exec:"):]
		return m.lookPath(prog)
	case cond == "gc":
		return runtime.Compiler == "gc"
	case cond == "gccgo":
		return runtime.Compiler == "gccgo"
	case goVersionRe.MatchString(cond):
		sm := goVersionRe.FindStringSubmatch(cond)
		want, _ := strconv.Atoi(sm[2])
		cur := goMinor()
		if sm[1] != "1" {
			return false
		}
		return want <= cur
	case m.P.CustomCond:
		switch cond {
		case "ctrue":
			return true
		case "cfalse":
			return false
		}
		m.fail("bad-condition")
	default:
		m.fail("unknown-condition")
	}
	return false
}

// lookPath models exec.LookPath with the script's PATH: directories below $WORK are looked up in the
// modelled tree (regular file with an execute bit), the host's PATH holds the helper programs and
// none of the names the harness uses for missing programs (nosuchprog*, zzprog*).
func (m *Model) lookPath(prog string) bool {
	if strings.Contains(prog, "/") || prog == "" {
		m.unmodelled("[exec:%s]", prog)
	}
	path := m.getenv("PATH")
	host := m.H.Path
	rest := path
	if host != "" && strings.HasSuffix(path, host) {
		rest = strings.TrimSuffix(strings.TrimSuffix(path, host), ":")
	} else if path != host {
		// the host part was dropped or reordered
		if strings.Contains(path, host) && host != "" {
			m.unmodelled("PATH rearranged")
		}
		host = ""
	} else {
		rest = ""
	}
	for _, d := range strings.Split(rest, ":") {
		if d == "" {
			continue
		}
		rel := m.rel(d)
		n := m.stat(path2(rel, prog))
		if n != nil && n.Kind == "file" && n.PermKnown && n.Perm&0o111 != 0 {
			return true
		}
	}
	if host != "" {
		if in(HelperNames, prog) {
			return true
		}
		if strings.HasPrefix(prog, "nosuchprog") || strings.HasPrefix(prog, "zzprog") {
			return false
		}
		m.unmodelled("[exec:%s] on the host PATH", prog)
	}
	return false
}

// lookPathShadow reports whether a $WORK directory prepended to PATH holds a file named like the helper.
func (m *Model) lookPathShadow(prog string) bool {
	rest := strings.TrimSuffix(m.getenv("PATH"), ":"+m.H.Path)
	for _, d := range strings.Split(rest, ":") {
		if d == "" {
			return true
		}
		if n := m.stat(path2(m.rel(d), prog)); n != nil {
			return true
		}
	}
	return false
}

func path2(dir, name string) string {
	if dir == "." {
		return name
	}
	return dir + "/" + name
}

func goMinor() int {
	v := runtime.Version() // go1.23.5
	if !strings.HasPrefix(v, "go1.") {
		return 0
	}
	v = v[4:]
	for i := 0; i < len(v); i++ {
		if v[i] < '0' || v[i] > '9' {
			v = v[:i]
			break
		}
	}
	n, _ := strconv.Atoi(v)
	return n
}

// ---- script evaluation ----

// Run evaluates the whole script text (the archive comment) and returns the prediction.
func (m *Model) Run(script string) Result {
	for script != "" && !m.Done() {
		var line string
		if i := strings.Index(script, "\n"); i >= 0 {
			line, script = script[:i], script[i+1:]
		} else {
			line, script = script, ""
		}
		m.Step(line)
	}
	return m.finish()
}

// Done reports whether the script has ended (failure without ContinueOnError, stop, skip, or unmodelled).
func (m *Model) Done() bool { return m.dead || m.skip || m.stop || m.ended }

// Step evaluates one more script line; it reports whether the line met its demand.
func (m *Model) Step(line string) (ok bool) {
	if m.Done() {
		return true
	}
	m.lineno++
	if strings.HasPrefix(line, "#") {
		return true
	}
	ok = m.runLine(line)
	if m.dead || m.skip {
		return ok
	}
	if !ok {
		m.failed = true
		m.res.FailLines = append(m.res.FailLines, m.lineno)
		if !m.P.ContinueOnError {
			m.ended = true
		}
	}
	return ok
}

// Finish returns the prediction for the lines stepped so far.
func (m *Model) Finish() Result { return m.finish() }

// Clone returns a deep copy (used by state-aware generators to try candidate lines).
func (m *Model) Clone() *Model {
	c := *m
	c.fs = make(map[string]*Node, len(m.fs))
	for k, n := range m.fs {
		nn := *n
		c.fs[k] = &nn
	}
	c.envK = append([]string(nil), m.envK...)
	c.envV = make(map[string]string, len(m.envV))
	for k, v := range m.envV {
		c.envV[k] = v
	}
	c.bg = nil
	for _, b := range m.bg {
		bb := *b
		c.bg = append(c.bg, &bb)
	}
	c.defers = append([]string(nil), m.defers...)
	c.files = make(map[string]string, len(m.files))
	for k, v := range m.files {
		c.files[k] = v
	}
	c.res.FailLines = append([]int(nil), m.res.FailLines...)
	c.res.FailClass = append([]string(nil), m.res.FailClass...)
	c.res.Probes = append([]tskit.ProbeRec(nil), m.res.Probes...)
	c.res.Envs = append([]tskit.EnvRec(nil), m.res.Envs...)
	c.res.Std = append([]string(nil), m.res.Std...)
	c.res.Updates = make(map[string]string, len(m.res.Updates))
	for k, v := range m.res.Updates {
		c.res.Updates[k] = v
	}
	return &c
}

// ---- read-only accessors for generators ----

func (m *Model) Cwd() string            { return m.cwd }
func (m *Model) Stdout() string         { return m.stdout }
func (m *Model) Stderr() string         { return m.stderr }
func (m *Model) Failed() bool           { return m.failed }
func (m *Model) Unmodelled() string     { return m.res.Unmodelled }
func (m *Model) Getenv(k string) string { return m.envV[k] }
func (m *Model) EnvNames() []string     { return append([]string(nil), m.envK...) }
func (m *Model) Background() []string {
	var out []string
	for _, b := range m.bg {
		out = append(out, b.name)
	}
	return out
}

// BlockedBackground lists background helpers that run until signalled and have not been signalled yet.
func (m *Model) BlockedBackground() (names []string, unnamed int) {
	for _, b := range m.bg {
		if b.block && b.sig == "" {
			if b.name != "" {
				names = append(names, b.name)
			} else {
				unnamed++
			}
		}
	}
	return
}

// Paths lists the modelled paths (relative to $WORK) of the given kind ("" = any), sorted.
func (m *Model) Paths(kind string) []string {
	var out []string
	for k, n := range m.fs {
		if k == "." || k == ".tmp" || strings.HasPrefix(k, ".tmp/") {
			continue
		}
		if kind == "" || n.Kind == kind {
			out = append(out, k)
		}
	}
	sort.Strings(out)
	return out
}
func (m *Model) NodeAt(rel string) *Node         { return m.fs[rel] }
func (m *Model) ArchivePaths() map[string]string { return m.files }

func (m *Model) finish() Result {
	r := m.res
	if r.Unmodelled != "" {
		return r
	}
	switch {
	case m.failed:
		r.Verdict = "fail" // also when a later line skips: with ContinueOnError the run still fails
	case m.skip:
		r.Verdict = "skip"
	default:
		r.Verdict = "pass"
	}
	// defers run in reverse order on every exit path
	for i := len(m.defers) - 1; i >= 0; i-- {
		r.Defers = append(r.Defers, m.defers[i])
	}
	r.Tree = map[string]Node{}
	for k, n := range m.fs {
		if k == "." || k == ".tmp" || strings.HasPrefix(k, ".tmp/") {
			continue
		}
		r.Tree[k] = *n
	}
	r.Background = len(m.bg)
	return r
}

func (m *Model) runLine(line string) (ok bool) {
	ok = true
	defer m.recoverTo(func(fp failPanic) {
		ok = false
		m.res.FailClass = append(m.res.FailClass, fp.class)
	})
	args, err := Tokenize(line, m.getenv)
	if err != nil {
		if err == ErrUnterminated {
			m.fail("unterminated-quote")
		}
		m.unmodelled("%v", err)
	}
	if len(args) == 0 {
		return true
	}
	for strings.HasPrefix(args[0], "[") && strings.HasSuffix(args[0], "]") {
		cond := strings.TrimSpace(args[0][1 : len(args[0])-1])
		args = args[1:]
		if len(args) == 0 {
			m.fail("missing-command-after-condition")
		}
		want := true
		if strings.HasPrefix(cond, "!") {
			want = false
			cond = strings.TrimSpace(cond[1:])
		}
		if m.condition(cond) != want {
			m.res.Guarded++
			return true
		}
	}
	neg := false
	if args[0] == "!" {
		neg = true
		args = args[1:]
		if len(args) == 0 {
			m.fail("bang-alone")
		}
		m.res.Negated++
	}
	m.res.Executed++
	m.command(neg, args[0], args[1:])
	return true
}

var builtin = map[string]bool{"cd": true, "chmod": true, "cmp": true, "cmpenv": true, "cp": true, "env": true, "exec": true, "exists": true, "grep": true, "kill": true,
	"mkdir": true, "mv": true, "rm": true, "skip": true, "stderr": true, "stdin": true, "stdout": true, "ttyin": true, "ttyout": true, "stop": true, "symlink": true,
	"unix2dos": true, "unquote": true, "wait": true}

func (m *Model) noNeg(neg bool, name string) {
	if neg {
		m.fail("unsupported-negation")
	}
}

func (m *Model) command(neg bool, name string, args []string) {
	switch name {
	case "cd":
		m.noNeg(neg, name)
		if len(args) != 1 {
			m.fail("usage")
		}
		rel := m.rel(args[0])
		n := m.lookup(rel)
		if n == nil {
			m.fail("cd-missing")
		}
		if n.Kind == "symlink" {
			m.unmodelled("cd through symlink")
		}
		if n.Kind != "dir" {
			m.fail("cd-not-dir")
		}
		m.cwd = rel
	case "chmod":
		m.noNeg(neg, name)
		if len(args) < 2 {
			m.fail("usage")
		}
		perm, err := strconv.ParseUint(args[0], 8, 32)
		if err != nil || perm&0o777 != perm {
			m.fail("chmod-invalid-mode")
		}
		for _, a := range args[1:] {
			rel := m.rel(a)
			n := m.lookup(rel)
			if n == nil {
				m.fail("chmod-missing")
			}
			if n.Kind == "symlink" {
				m.unmodelled("chmod on symlink")
			}
			n.Perm, n.PermKnown = uint32(perm), true
		}
	case "cmp", "cmpenv":
		if len(args) != 2 {
			m.fail("usage")
		}
		if args[0] == args[1] {
			m.fail("cmp-same-file")
		}
		var t1 string
		switch args[0] {
		case "stdout":
			t1 = m.stdout
		case "stderr":
			t1 = m.stderr
		case "ttyout":
			m.unmodelled("ttyout")
		default:
			t1 = m.readFile(args[0], "cmp-missing-file")
		}
		rel2 := m.rel(args[1])
		t2 := m.readFile(args[1], "cmp-missing-file")
		if name == "cmpenv" {
			x, err := expandChunk(t2, m.getenv)
			if err != nil {
				m.unmodelled("cmpenv file: %v", err)
			}
			t2 = x
		}
		eq := t1 == t2
		if neg {
			if eq {
				m.fail("cmp-unexpectedly-equal")
			}
			return
		}
		if eq {
			return
		}
		if m.P.UpdateScripts && name == "cmp" {
			if entry, ok := m.files[rel2]; ok {
				m.res.Updates[entry] = t1
				return
			}
		}
		m.fail("cmp-differ")
	case "cp":
		m.noNeg(neg, name)
		if len(args) < 2 {
			m.fail("usage")
		}
		dstRel := m.rel(args[len(args)-1])
		dn := m.stat(dstRel)
		dstDir := dn != nil && dn.Kind == "dir"
		if dn != nil && m.lookup(dstRel).Kind == "symlink" {
			m.unmodelled("cp to symlink")
		}
		if len(args) > 2 && !dstDir {
			m.fail("cp-dest-not-dir")
		}
		for _, a := range args[:len(args)-1] {
			var data string
			var perm uint32 = 0o666
			base := path.Base(a)
			switch a {
			case "stdout":
				data = m.stdout
			case "stderr":
				data = m.stderr
			case "ttyout":
				m.unmodelled("ttyout")
			default:
				srel := m.rel(a)
				sn := m.lookup(srel)
				if sn == nil {
					m.fail("cp-missing-source")
				}
				if sn.Kind != "file" {
					m.unmodelled("cp of non-regular file")
				}
				data = sn.Data
				base = path.Base(srel)
				if sn.PermKnown {
					perm = sn.Perm
				} else {
					perm = 0o644
				}
				if sn.PermKnown && sn.Perm&0o400 == 0 {
					m.unmodelled("cp of unreadable file (root-dependent)")
				}
			}
			targ := dstRel
			if dstDir {
				targ = path.Join(dstRel, base)
			}
			if !m.parentsOK(targ) {
				m.fail("cp-missing-dest-dir")
			}
			if tn := m.fs[targ]; tn != nil {
				if tn.Kind != "file" {
					m.unmodelled("cp onto non-regular")
				}
				tn.Data = data // existing file keeps its mode
			} else {
				m.fs[targ] = &Node{Kind: "file", Data: data, Perm: perm &^ 0o022, PermKnown: true}
			}
		}
	case "env":
		m.noNeg(neg, name)
		for _, a := range args {
			i := strings.Index(a, "=")
			if i < 0 {
				continue // display only
			}
			if i == 0 {
				m.unmodelled("env with empty name")
			}
			m.setenv(a[:i], a[i+1:])
		}
	case "exec":
		m.exec(neg, args)
	case "exists":
		ro := false
		if len(args) > 0 && args[0] == "-readonly" {
			ro = true
			args = args[1:]
		}
		if len(args) == 0 {
			m.fail("usage")
		}
		for _, a := range args {
			n := m.stat(m.rel(a))
			if n != nil && neg {
				m.fail("exists-unexpectedly")
			}
			if n == nil && !neg {
				m.fail("exists-missing")
			}
			if n != nil && !neg && ro {
				if !n.PermKnown {
					m.fail("exists-writable") // default modes are writable by the owner
				} else if n.Perm&0o222 != 0 {
					m.fail("exists-writable")
				}
			}
		}
	case "grep":
		m.match(neg, args, "", true)
	case "stdout":
		m.match(neg, args, m.stdout, false)
	case "stderr":
		m.match(neg, args, m.stderr, false)
	case "kill":
		m.kill(neg, args)
	case "mkdir":
		m.noNeg(neg, name)
		if len(args) < 1 {
			m.fail("usage")
		}
		for _, a := range args {
			rel := m.rel(a)
			if n := m.lookup(rel); n != nil && n.Kind != "dir" {
				m.fail("mkdir-exists-as-file")
			}
			for d := rel; d != "."; d = path.Dir(d) {
				if n := m.fs[d]; n != nil && n.Kind != "dir" {
					m.fail("mkdir-exists-as-file")
				}
			}
			m.mkdirAll(rel)
		}
	case "mv":
		m.noNeg(neg, name)
		if len(args) != 2 {
			m.fail("usage")
		}
		src, dst := m.rel(args[0]), m.rel(args[1])
		sn := m.lookup(src)
		if sn == nil {
			m.fail("mv-missing-source")
		}
		if !m.parentsOK(dst) {
			m.fail("mv-missing-dest-dir")
		}
		dn := m.fs[dst]
		switch {
		case src == dst:
			m.unmodelled("mv onto itself")
		case strings.HasPrefix(dst, src+"/"):
			m.unmodelled("mv into itself")
		case sn.Kind == "file" && (dn == nil || dn.Kind == "file"):
		case sn.Kind == "dir" && dn == nil:
		default:
			m.unmodelled("mv shape %s -> %v", sn.Kind, dn)
		}
		if m.cwd == src || strings.HasPrefix(m.cwd, src+"/") {
			m.unmodelled("mv of the current directory")
		}
		moved := map[string]*Node{}
		for k, n := range m.fs {
			if k == src || strings.HasPrefix(k, src+"/") {
				moved[dst+k[len(src):]] = n
				delete(m.fs, k)
			}
		}
		for k, n := range moved {
			m.fs[k] = n
		}
	case "rm":
		m.noNeg(neg, name)
		if len(args) < 1 {
			m.fail("usage")
		}
		for _, a := range args {
			rel := m.rel(a)
			if rel == "." || m.cwd == rel || strings.HasPrefix(m.cwd, rel+"/") {
				m.unmodelled("rm of the current directory")
			}
			if !m.parentsOK(rel) {
				continue
			}
			m.removeTree(rel)
		}
	case "skip":
		if len(args) > 1 {
			m.fail("usage")
		}
		m.noNeg(neg, name)
		if len(m.bg) > 0 {
			// skip interrupts every background command, then behaves like the unnamed wait
			for _, b := range m.bg {
				if !b.block {
					m.unmodelled("skip while a short-lived background process may or may not have exited")
				}
				if b.sig == "" {
					b.sig = "INT"
				}
			}
			m.wait(false, nil)
		}
		panic(skipPanic{})
	case "stop":
		m.noNeg(neg, name)
		if len(args) > 1 {
			m.fail("usage")
		}
		m.stop = true
	case "stdin":
		m.noNeg(neg, name)
		if len(args) != 1 {
			m.fail("usage")
		}
		switch args[0] {
		case "stdout":
			m.stdin = m.stdout
		case "stderr":
			m.stdin = m.stderr
		case "ttyout":
			m.unmodelled("ttyout")
		default:
			m.stdin = m.readFile(args[0], "stdin-missing-file")
		}
	case "symlink":
		m.noNeg(neg, name)
		if len(args) != 3 || args[1] != "->" {
			m.fail("usage")
		}
		rel := m.rel(args[0])
		if !m.parentsOK(rel) {
			m.fail("symlink-missing-dir")
		}
		if m.fs[rel] != nil {
			m.fail("symlink-exists")
		}
		m.fs[rel] = &Node{Kind: "symlink", Target: args[2]}
	case "unquote":
		m.noNeg(neg, name)
		for _, a := range args {
			rel := m.rel(a)
			data := m.readFile(a, "unquote-missing-file")
			if len(data) == 0 {
				m.fs[rel].Data = ""
				continue
			}
			if data[0] != '>' || data[len(data)-1] != '\n' {
				m.fail("unquote-not-quoted")
			}
			// remove one leading '>' from every line
			var b strings.Builder
			for _, l := range strings.SplitAfter(data, "\n") {
				b.WriteString(strings.TrimPrefix(l, ">"))
			}
			m.fs[rel].Data = b.String()
		}
	case "unix2dos":
		m.noNeg(neg, name)
		if len(args) < 1 {
			m.fail("usage")
		}
		for _, a := range args {
			rel := m.rel(a)
			data := m.readFile(a, "unix2dos-missing-file")
			if strings.Contains(data, "\r") || (data != "" && !strings.HasSuffix(data, "\n")) {
				m.unmodelled("unix2dos on CR or unterminated content")
			}
			for _, l := range strings.Split(data, "\n") {
				if len(l) > 60000 {
					m.unmodelled("unix2dos long line")
				}
			}
			m.fs[rel].Data = strings.ReplaceAll(data, "\n", "\r\n")
		}
	case "wait":
		m.wait(neg, args)
	case "ttyin", "ttyout":
		m.unmodelled("pty commands")
	default:
		if in(HelperNames, name) && !m.H.NoMainCmds {
			// commands registered through testscript.Main
			if m.P.RequireExplicitExec {
				m.fail("require-explicit-exec")
			}
			m.exec(neg, append([]string{name}, args...))
			return
		}
		if m.P.CustomCmds {
			if m.custom(neg, name, args) {
				return
			}
		}
		m.fail("unknown-command")
	}
}

func (m *Model) custom(neg bool, name string, args []string) bool {
	switch name {
	case "probe":
		cwd := m.cwd
		m.res.Probes = append(m.res.Probes, tskit.ProbeRec{Line: m.lineno, Neg: neg, Args: append([]string{}, args...), Cwd: cwd})
	case "getenv":
		for _, a := range args {
			m.res.Envs = append(m.res.Envs, tskit.EnvRec{Name: a, Value: m.getenv(a)})
		}
	case "recstd":
		m.res.Std = append(m.res.Std, m.stdout)
	case "failcmd":
		m.fail("failcmd")
	case "cemit":
		if neg {
			m.fail("unsupported-negation")
		}
		var o, e string
		used := false
		a := args
		for len(a) >= 2 {
			switch a[0] {
			case "-o":
				o += tskit.Unescape(a[1])
				used = true
			case "-e":
				e += tskit.Unescape(a[1])
				used = true
			default:
				if used {
					m.stdout, m.stderr = o, e
				}
				m.fail("usage")
			}
			a = a[2:]
		}
		if used {
			m.stdout, m.stderr = o, e
		}
		if len(a) != 0 {
			m.fail("usage")
		}
	case "cexec":
		if len(args) < 1 {
			m.fail("usage")
		}
		for _, a := range args {
			if bgSpec.MatchString(a) {
				m.unmodelled("cexec with an argument that looks like a background marker")
			}
		}
		m.exec(neg, args)
	case "setenv":
		if neg || len(args) != 2 {
			m.fail("usage")
		}
		if args[0] == "" || strings.Contains(args[0], "=") {
			m.unmodelled("setenv odd name")
		}
		m.setenv(args[0], args[1])
	case "defer":
		if neg || len(args) != 1 {
			m.fail("usage")
		}
		m.defers = append(m.defers, args[0])
	default:
		return false
	}
	return true
}

var bgSpec = regexp.MustCompile(`^&([a-zA-Z_0-9]+&)?$`)

func (m *Model) findBG(name string) *bgProc {
	if name == "" {
		return nil
	}
	for _, b := range m.bg {
		if b.name == name {
			return b
		}
	}
	return nil
}

func (m *Model) childEnv(name string) (string, bool) {
	if name == "PWD" {
		return m.abs(m.cwd), true
	}
	v, ok := m.envV[name]
	return v, ok
}

func (m *Model) exec(neg bool, args []string) {
	if len(args) < 1 || (len(args) == 1 && args[0] == "&") {
		m.fail("usage")
	}
	background := bgSpec.MatchString(args[len(args)-1])
	bgName := ""
	if background {
		bgName = strings.TrimSuffix(strings.TrimPrefix(args[len(args)-1], "&"), "&")
		if m.findBG(bgName) != nil {
			m.fail("duplicate-background-name")
		}
		args = args[:len(args)-1]
		if len(args) == 0 {
			m.fail("usage")
		}
	}
	prog := args[0]
	if strings.Contains(prog, "/") {
		m.unmodelled("exec with a path")
	}
	if strings.HasPrefix(prog, "zzprog") {
		m.execTool(neg, prog, background)
		return
	}
	if p := m.getenv("PATH"); p != m.H.Path && !(in(HelperNames, prog) && strings.HasSuffix(p, ":"+m.H.Path) && !m.lookPathShadow(prog)) {
		m.unmodelled("exec after PATH was changed")
	}
	stdin := m.stdin
	m.stdin = ""
	if !in(HelperNames, prog) {
		if !strings.HasPrefix(prog, "nosuchprog") {
			m.unmodelled("exec of %q", prog)
		}
		// program not found: the command did not succeed
		if stdin != "" {
			m.unmodelled("program not found with pending stdin")
		}
		if background {
			m.stdout, m.stderr = "", ""
		} else {
			m.stdout, m.stderr = "", ""
		}
		if !neg {
			m.fail("exec-not-found")
		}
		return
	}
	for _, a := range args {
		if strings.ContainsRune(a, 0) {
			m.unmodelled("NUL in exec argument")
		}
	}
	for k, v := range m.envV {
		if strings.ContainsRune(k, 0) || strings.ContainsRune(v, 0) {
			m.unmodelled("NUL in environment")
		}
	}
	sub := args[1:]
	var res tskit.HelperResult
	block := false
	exitOnInt := false
	if len(sub) > 0 {
		switch sub[0] {
		case "block":
			block = true
			for i := 1; i < len(sub); i++ {
				a := sub[i]
				switch {
				case a == "--exit-on-int":
					exitOnInt = true
				case a == "--ignore-quit":
				case strings.HasPrefix(a, "--ready="):
					f := strings.TrimPrefix(a, "--ready=")
					rel := m.rel(f)
					if !m.parentsOK(rel) {
						m.unmodelled("--ready in a missing directory")
					}
					m.fs[rel] = &Node{Kind: "file", Data: "ready\n", Perm: 0o644, PermKnown: true}
				case strings.HasPrefix(a, "--pid="):
					if f := strings.TrimPrefix(a, "--pid="); !strings.HasPrefix(f, "/") || strings.HasPrefix(f, m.H.WorkAbs) {
						m.unmodelled("--pid file inside $WORK")
					}
				case a == "-o" && i+1 < len(sub):
					res.Stdout += tskit.Unescape(sub[i+1])
					i++
				case a == "-e" && i+1 < len(sub):
					res.Stderr += tskit.Unescape(sub[i+1])
					i++
				default:
					m.unmodelled("block flag %q", a)
				}
			}
			res.Known = true
		case "dumpenv":
			var kvs []string
			for k, v := range m.envV {
				kvs = append(kvs, k+"="+v)
			}
			if _, ok := m.envV["PWD"]; ok {
				m.unmodelled("PWD set by the script")
			}
			kvs = append(kvs, "PWD="+m.abs(m.cwd))
			sort.Strings(kvs)
			var sb strings.Builder
			for _, kv := range kvs {
				fmt.Fprintf(&sb, "%q\n", kv)
			}
			res = tskit.HelperResult{Stdout: sb.String(), Known: true}
		case "waitfile":
			for _, f := range sub[1:] {
				n := m.lookup(m.rel(f))
				if n == nil {
					m.unmodelled("waitfile on a file nobody creates")
				}
			}
			res = tskit.HelperResult{Known: true}
		case "spawn":
			// spawn --pid=FILE MS: a grandchild holds the output pipes for MS ms; the command itself is over at once
			if len(sub) != 3 || !strings.HasPrefix(sub[1], "--pid=/") || strings.HasPrefix(strings.TrimPrefix(sub[1], "--pid="), m.H.WorkAbs) {
				m.unmodelled("spawn form")
			}
			if n, err := strconv.Atoi(sub[2]); err != nil || n < 0 || n > 5000 {
				m.unmodelled("spawn duration")
			}
			res = tskit.HelperResult{Known: true}
		case "sleepms":
			if len(sub) != 2 {
				m.unmodelled("sleepms form")
			}
			if n, err := strconv.Atoi(sub[1]); err != nil || n < 0 || n > 2000 {
				m.unmodelled("sleepms duration")
			}
			res = tskit.HelperResult{Known: true}
		default:
			res = tskit.PureHelper(sub, stdin, m.abs(m.cwd), m.childEnv)
		}
	} else {
		res = tskit.PureHelper(sub, stdin, m.abs(m.cwd), m.childEnv)
	}
	if !res.Known {
		m.unmodelled("helper sub-command %v", sub)
	}
	if block && !background {
		m.unmodelled("foreground block")
	}
	applyTouch := func() {
		for _, f := range res.Touch {
			rel := m.rel(f)
			if !m.parentsOK(rel) {
				m.unmodelled("touch in missing dir")
			}
			if n := m.fs[rel]; n != nil {
				if n.Kind != "file" {
					m.unmodelled("touch on non-regular")
				}
				if n.PermKnown && n.Perm&0o200 == 0 {
					m.unmodelled("touch on read-only file (root-dependent)")
				}
				n.Data = "touched\n"
			} else {
				m.fs[rel] = &Node{Kind: "file", Data: "touched\n", Perm: 0o644, PermKnown: true}
			}
		}
	}
	if background {
		if len(res.Touch) > 0 {
			m.unmodelled("background touch")
		}
		m.bg = append(m.bg, &bgProc{name: bgName, neg: neg, block: block, exitOnInt: exitOnInt, res: res, cwd: m.cwd})
		m.stdout, m.stderr = "", ""
		return
	}
	applyTouch()
	m.stdout, m.stderr = res.Stdout, res.Stderr
	if res.Exit == 0 && neg {
		m.fail("exec-unexpected-success")
	}
	if res.Exit != 0 && !neg {
		m.fail("exec-unexpected-failure")
	}
}

var toolRe = regexp.MustCompile(`^#!/bin/sh\n(?:echo ([a-z0-9-]+)\n)?(?:exit ([0-9])\n)?$`)

// execTool: a program the script installed itself. The names zzprog* exist nowhere on the host; the script puts a
// directory of its own in front of PATH and copies a two-line shell script there. The name is looked up when the line runs:
// first directory of PATH (those in front of the host's) holding a regular file of that name with an execute bit.
func (m *Model) execTool(neg bool, prog string, background bool) {
	if background {
		m.unmodelled("installed program in the background")
	}
	p := m.getenv("PATH")
	if p != m.H.Path && !strings.HasSuffix(p, ":"+m.H.Path) {
		m.unmodelled("exec after PATH was changed")
	}
	m.stdin = ""
	var tool *Node
	if rest := strings.TrimSuffix(strings.TrimSuffix(p, m.H.Path), ":"); rest != "" {
		for _, d := range strings.Split(rest, ":") {
			if !strings.HasPrefix(d, m.H.WorkAbs+"/") {
				m.unmodelled("PATH entry outside $WORK")
			}
			n := m.stat(path2(m.rel(d), prog))
			if n == nil || n.Kind == "dir" {
				continue
			}
			if n.Kind != "file" {
				m.unmodelled("installed program of kind %s", n.Kind)
			}
			if !n.PermKnown || n.Perm&0o111 == 0 {
				continue
			}
			if n.Perm&0o500 != 0o500 {
				m.unmodelled("installed program with mode %o (user-dependent)", n.Perm)
			}
			tool = n
			break
		}
	}
	if tool == nil {
		m.stdout, m.stderr = "", ""
		if !neg {
			m.fail("exec-not-found")
		}
		return
	}
	sm := toolRe.FindStringSubmatch(tool.Data)
	if sm == nil {
		m.unmodelled("installed program with other content")
	}
	m.stdout, m.stderr = "", ""
	if sm[1] != "" {
		m.stdout = sm[1] + "\n"
	}
	ok := sm[2] == "" || sm[2] == "0"
	if ok && neg {
		m.fail("exec-unexpected-success")
	}
	if !ok && !neg {
		m.fail("exec-unexpected-failure")
	}
}

func (m *Model) kill(neg bool, args []string) {
	sig := ""
	name := ""
	switch len(args) {
	case 0:
	case 1, 2:
		if s, ok := strings.CutPrefix(args[0], "-"); ok {
			if s != "INT" && s != "KILL" {
				m.fail("kill-unknown-signal")
			}
			sig = s
			if len(args) == 2 {
				name = args[1]
			}
		} else {
			name = args[0]
			if len(args) == 2 {
				m.unmodelled("kill name extra")
			}
		}
	default:
		m.fail("usage")
	}
	if neg {
		m.fail("unsupported-negation")
	}
	if sig == "" {
		sig = "KILL"
	}
	var targets []*bgProc
	if name != "" {
		b := m.findBG(name)
		if b == nil {
			m.fail("kill-unknown-process")
		}
		targets = []*bgProc{b}
	} else {
		targets = m.bg
	}
	for _, b := range targets {
		if !b.block {
			m.unmodelled("kill of a process that may already have exited")
		}
		if b.sig != "" {
			m.unmodelled("second signal to the same process")
		}
		b.sig = sig
	}
}

func (b *bgProc) success(m *Model) bool {
	if b.block {
		switch {
		case b.sig == "":
			m.unmodelled("wait for a process that never exits")
		case b.sig == "INT" && b.exitOnInt:
			return true
		}
		return false
	}
	return b.res.Exit == 0
}

func (m *Model) wait(neg bool, args []string) {
	if len(args) > 1 {
		m.fail("usage")
	}
	if neg {
		m.fail("unsupported-negation")
	}
	check := func(b *bgProc) {
		ok := b.success(m)
		if ok && b.neg {
			if m.P.ContinueOnError {
				m.unmodelled("failing wait under ContinueOnError")
			}
			m.fail("wait-unexpected-success")
		}
		if !ok && !b.neg {
			if m.P.ContinueOnError {
				m.unmodelled("failing wait under ContinueOnError")
			}
			m.fail("wait-unexpected-failure")
		}
	}
	if len(args) == 1 {
		b := m.findBG(args[0])
		if b == nil {
			m.fail("wait-unknown-process")
		}
		_ = b.success(m)
		m.stdout, m.stderr = b.res.Stdout, b.res.Stderr
		check(b)
		for i, x := range m.bg {
			if x == b {
				m.bg = append(m.bg[:i:i], m.bg[i+1:]...)
				break
			}
		}
		return
	}
	var so, se string
	for _, b := range m.bg {
		_ = b.success(m)
		so += b.res.Stdout
		se += b.res.Stderr
		check(b)
	}
	m.stdout, m.stderr = so, se
	m.bg = nil
}

func (m *Model) match(neg bool, args []string, text string, isGrep bool) {
	n := 0
	if len(args) >= 1 && strings.HasPrefix(args[0], "-count=") {
		if neg {
			m.fail("count-with-negation")
		}
		var err error
		n, err = strconv.Atoi(args[0][len("-count="):])
		if err != nil {
			m.fail("bad-count")
		}
		if n < 1 {
			m.fail("bad-count")
		}
		args = args[1:]
	}
	want := 1
	if isGrep {
		want = 2
	}
	if len(args) != want {
		m.fail("usage")
	}
	pat := args[0]
	if strings.ContainsAny(pat, "^$") || strings.Contains(pat, `\A`) || strings.Contains(pat, `\z`) || strings.Contains(pat, "(?") {
		m.unmodelled("anchors/flags in pattern (multi-line mode is not documented)")
	}
	re, err := regexp.Compile(pat)
	if err != nil {
		m.fail("bad-pattern")
	}
	if re.MatchString("") {
		m.unmodelled("pattern matches the empty string")
	}
	if isGrep {
		text = m.readFile(args[1], "grep-missing-file")
	}
	if neg {
		if re.MatchString(text) {
			m.fail("unexpected-match")
		}
		return
	}
	if !re.MatchString(text) {
		m.fail("no-match")
	}
	if n > 0 && len(re.FindAllString(text, -1)) != n {
		m.fail("wrong-match-count")
	}
}

// ExpectedArchive computes the script file contents expected after UpdateScripts:
// entries named in updates hold the new content (quoted when it contains a marker line).
func ExpectedEntry(content string) (data string, quotable bool) {
	b := []byte(content)
	if !txtarref.HasMarkerLine(b) {
		return content, true
	}
	if len(b) == 0 || b[len(b)-1] != '\n' || !validUTF8(b) {
		return "", false
	}
	var sb strings.Builder
	for _, l := range strings.SplitAfter(content, "\n") {
		if l != "" {
			sb.WriteString(">" + l)
		}
	}
	return sb.String(), true
}

func validUTF8(b []byte) bool { return utf8.Valid(b) }

// TreeKeys lists a predicted tree in order.
func TreeKeys(t map[string]Node) []string {
	var ks []string
	for k := range t {
		ks = append(ks, k)
	}
	sort.Strings(ks)
	return ks
}
