// Package parreal stresses the unmodified par package under the real Go
// scheduler (built with -race by the driver): memory-model coverage that the
// sequentially consistent cooperative scheduler cannot give. It also serves as
// the fallback when the instrumented build of par fails.
package parreal

import (
	"encoding/json"
	"fmt"
	"os"
	"runtime"
	"sync"
	"sync/atomic"
	"testing"
	"time"

	"github.com/rogpeppe/go-internal/par"
	"pgregory.net/rapid"

	"verif/vt"
)

var rec = vt.New(propID())

func propID() string {
	if p := os.Getenv("VERIF_PROP"); p != "" {
		return p
	}
	return "C10"
}

func TestMain(m *testing.M) { vt.Main(m, rec) }

// ---- Work ----

type workCase struct {
	N       int     `json:"n"`
	Initial []int   `json:"initial"`
	Succ    [][]int `json:"succ"`
	Spin    []int   `json:"spin"` // Gosched calls inside f
}

func checkWork(c workCase) *vt.Fail {
	if c.N < 1 || len(c.Succ) == 0 {
		return nil
	}
	counts := make([]int32, len(c.Succ))
	var inflight, maxIn int32
	var after int32
	var doReturned int32
	closure := map[int]bool{}
	var walk func(int)
	walk = func(i int) {
		if !closure[i] {
			closure[i] = true
			for _, s := range c.Succ[i] {
				walk(s)
			}
		}
	}
	for _, i := range c.Initial {
		walk(i)
	}
	done := make(chan struct{})
	go func() {
		defer close(done)
		var w par.Work
		for _, i := range c.Initial {
			w.Add(i)
		}
		w.Do(c.N, func(x any) {
			i := x.(int)
			if atomic.LoadInt32(&doReturned) != 0 {
				atomic.StoreInt32(&after, 1)
			}
			atomic.AddInt32(&counts[i], 1)
			n := atomic.AddInt32(&inflight, 1)
			for {
				m := atomic.LoadInt32(&maxIn)
				if n <= m || atomic.CompareAndSwapInt32(&maxIn, m, n) {
					break
				}
			}
			for k := 0; k < c.Spin[i]; k++ {
				runtime.Gosched()
			}
			for _, s := range c.Succ[i] {
				w.Add(s)
			}
			atomic.AddInt32(&inflight, -1)
		})
		atomic.StoreInt32(&doReturned, 1)
	}()
	select {
	case <-done:
	case <-time.After(60 * time.Second):
		rec.Infra("par.Work.Do did not return within 60 s on a tiny graph (possible deadlock; inconclusive under the real scheduler): %+v", c)
		return nil
	}
	if n := atomic.LoadInt32(&inflight); n != 0 {
		return vt.Failf("do-returned-early", "Do returned with %d calls in progress", n)
	}
	if atomic.LoadInt32(&after) != 0 {
		return vt.Failf("f-called-after-do-returned", "f called after Do returned")
	}
	for i := range counts {
		want := int32(0)
		if closure[i] {
			want = 1
		}
		if got := atomic.LoadInt32(&counts[i]); got != want {
			return vt.Failf("not-exactly-once", "item %d ran %d times, want %d", i, got, want)
		}
	}
	if m := atomic.LoadInt32(&maxIn); int(m) > c.N {
		return vt.Failf("too-many-in-flight", "%d calls in flight, n=%d", m, c.N)
	}
	return nil
}

func genWork(t *rapid.T) workCase {
	items := rapid.IntRange(1, 40).Draw(t, "items")
	c := workCase{N: rapid.IntRange(1, 8).Draw(t, "n")}
	c.Initial = rapid.SliceOfN(rapid.IntRange(0, items-1), 1, 16).Draw(t, "initial")
	for i := 0; i < items; i++ {
		c.Succ = append(c.Succ, rapid.SliceOfN(rapid.IntRange(0, items-1), 0, 4).Draw(t, "succ"))
		c.Spin = append(c.Spin, rapid.IntRange(0, 3).Draw(t, "spin"))
	}
	return c
}

func TestWorkStress(t *testing.T) {
	vt.Run(t, rec, vt.Prop[workCase]{Kind: "real-work", Gen: genWork, Check: checkWork, Meta: func(c workCase) vt.Meta {
		return vt.Meta{NonTrivial: c.N >= 2 && len(c.Succ) >= 3, Classes: []string{fmt.Sprintf("workers=%d", min(c.N, 4))}}
	}}, vt.N(300, 3000))
}

// ---- Cache ----

type cacheCase struct {
	Goroutines int   `json:"goroutines"`
	Keys       int   `json:"keys"`
	Ops        []int `json:"ops"` // per goroutine op list encoded: key*2 + (1 if get)
	Spin       int   `json:"spin"`
}

type boxed struct{ key, id int }

func checkCache(c cacheCase) *vt.Fail {
	if c.Goroutines < 1 || c.Keys < 1 || len(c.Ops) == 0 {
		return nil
	}
	var pc par.Cache
	calls := make([]int32, c.Keys)
	vals := make([]atomic.Pointer[boxed], c.Keys)
	var bad atomic.Pointer[vt.Fail]
	var wg sync.WaitGroup
	start := make(chan struct{})
	for g := 0; g < c.Goroutines; g++ {
		wg.Add(1)
		go func(g int) {
			defer wg.Done()
			<-start
			for j := range c.Ops {
				op := c.Ops[(j+g)%len(c.Ops)]
				key := (op / 2) % c.Keys
				if op%2 == 1 {
					got := pc.Get(key)
					if got != nil {
						b := got.(*boxed)
						if b.key != key || vals[key].Load() != b {
							bad.CompareAndSwap(nil, vt.Failf("get-wrong-value", "Get(%d) returned %+v", key, *b))
						}
					}
					continue
				}
				got := pc.Do(key, func() any {
					if atomic.AddInt32(&calls[key], 1) > 1 {
						bad.CompareAndSwap(nil, vt.Failf("f-invoked-twice", "f for key %d invoked more than once", key))
					}
					for k := 0; k < c.Spin; k++ {
						runtime.Gosched()
					}
					b := &boxed{key, g}
					vals[key].Store(b)
					return b
				})
				if got == nil {
					bad.CompareAndSwap(nil, vt.Failf("do-returned-before-f-completed", "Do(%d) returned nil", key))
				} else if b := got.(*boxed); b.key != key || vals[key].Load() != b {
					bad.CompareAndSwap(nil, vt.Failf("do-wrong-value", "Do(%d) returned %+v", key, *b))
				}
			}
		}(g)
	}
	close(start)
	done := make(chan struct{})
	go func() { wg.Wait(); close(done) }()
	select {
	case <-done:
	case <-time.After(60 * time.Second):
		rec.Infra("par.Cache stress did not finish within 60 s (inconclusive)")
		return nil
	}
	if f := bad.Load(); f != nil {
		return f
	}
	return nil
}

func genCache(t *rapid.T) cacheCase {
	return cacheCase{
		Goroutines: rapid.IntRange(2, 32).Draw(t, "goroutines"),
		Keys:       rapid.IntRange(1, 4).Draw(t, "keys"),
		Ops:        rapid.SliceOfN(rapid.IntRange(0, 7), 1, 12).Draw(t, "ops"),
		Spin:       rapid.IntRange(0, 4).Draw(t, "spin"),
	}
}

func TestCacheStress(t *testing.T) {
	vt.Run(t, rec, vt.Prop[cacheCase]{Kind: "real-cache", Gen: genCache, Check: checkCache, Meta: func(c cacheCase) vt.Meta {
		return vt.Meta{NonTrivial: c.Goroutines >= 4, Classes: []string{fmt.Sprintf("keys=%d", c.Keys)}}
	}}, vt.N(300, 4000))
}

var replayers = vt.Replayer{"real-work": vt.Decode(checkWork), "real-cache": vt.Decode(checkCache),
	"race-log": func(json.RawMessage) *vt.Fail { return nil }}

func TestReplay(t *testing.T) { vt.Replay(t, rec, replayers) }
