// Package vsync is a drop-in replacement for the parts of package sync used
// by the code under test, implemented on the cooperative scheduler. Every
// operation is a scheduling point. Semantics follow the sync documentation:
// Mutex hand-off order is unspecified (any waiter may win), Cond.Signal wakes
// one waiter of the scheduler's choice, Wait never wakes spuriously.
package vsync

import "verif/sched"

type Locker interface {
	Lock()
	Unlock()
}

type Mutex struct {
	locked  bool
	waiters []*sched.Task
}

func (m *Mutex) Lock() {
	sched.YieldWhy("Mutex.Lock")
	m.lockNoYield()
}

func (m *Mutex) TryLock() bool {
	sched.YieldWhy("Mutex.TryLock")
	if m.locked {
		return false
	}
	m.locked = true
	return true
}

func (m *Mutex) lockNoYield() {
	for m.locked {
		m.waiters = append(m.waiters, sched.Cur())
		sched.Block("Mutex.Lock (held)")
	}
	m.locked = true
}

func (m *Mutex) Unlock() {
	sched.YieldWhy("Mutex.Unlock")
	m.unlockNoYield()
}

func (m *Mutex) unlockNoYield() {
	if !m.locked {
		panic("sync: unlock of unlocked mutex")
	}
	m.locked = false
	for _, t := range m.waiters {
		sched.Wake(t)
	}
	m.waiters = nil
}

type RWMutex struct {
	writer  bool
	readers int
	waiters []*sched.Task
}

func (m *RWMutex) wakeAll() {
	for _, t := range m.waiters {
		sched.Wake(t)
	}
	m.waiters = nil
}
func (m *RWMutex) Lock() {
	sched.YieldWhy("RWMutex.Lock")
	for m.writer || m.readers > 0 {
		m.waiters = append(m.waiters, sched.Cur())
		sched.Block("RWMutex.Lock")
	}
	m.writer = true
}
func (m *RWMutex) Unlock() {
	sched.YieldWhy("RWMutex.Unlock")
	if !m.writer {
		panic("sync: Unlock of unlocked RWMutex")
	}
	m.writer = false
	m.wakeAll()
}
func (m *RWMutex) RLock() {
	sched.YieldWhy("RWMutex.RLock")
	for m.writer {
		m.waiters = append(m.waiters, sched.Cur())
		sched.Block("RWMutex.RLock")
	}
	m.readers++
}
func (m *RWMutex) RUnlock() {
	sched.YieldWhy("RWMutex.RUnlock")
	if m.readers <= 0 {
		panic("sync: RUnlock of unlocked RWMutex")
	}
	m.readers--
	m.wakeAll()
}
func (m *RWMutex) RLocker() Locker { return rlocker{m} }

type rlocker struct{ m *RWMutex }

func (r rlocker) Lock()   { r.m.RLock() }
func (r rlocker) Unlock() { r.m.RUnlock() }

type Cond struct {
	L       Locker
	waiters []*sched.Task
}

func NewCond(l Locker) *Cond { return &Cond{L: l} }

type noYield interface {
	lockNoYield()
	unlockNoYield()
}

func (c *Cond) Wait() {
	sched.YieldWhy("Cond.Wait")
	me := sched.Cur()
	c.waiters = append(c.waiters, me)
	if l, ok := c.L.(noYield); ok {
		l.unlockNoYield()
		sched.Block("Cond.Wait")
		l.lockNoYield()
		return
	}
	c.L.Unlock()
	sched.Block("Cond.Wait")
	c.L.Lock()
}

func (c *Cond) Signal() {
	sched.YieldWhy("Cond.Signal")
	if len(c.waiters) == 0 {
		return
	}
	i := sched.Choose(len(c.waiters))
	t := c.waiters[i]
	c.waiters = append(c.waiters[:i:i], c.waiters[i+1:]...)
	sched.Wake(t)
}

func (c *Cond) Broadcast() {
	sched.YieldWhy("Cond.Broadcast")
	for _, t := range c.waiters {
		sched.Wake(t)
	}
	c.waiters = nil
}

// Waiters reports how many tasks are parked in Wait (observer hook, not part of sync).
func (c *Cond) Waiters() int { return len(c.waiters) }

type Map struct {
	m    map[any]any
	keys []any // insertion order, for deterministic Range
}

func (m *Map) Load(k any) (any, bool) {
	sched.YieldWhy("Map.Load")
	v, ok := m.m[k]
	return v, ok
}

func (m *Map) store(k, v any) {
	if m.m == nil {
		m.m = map[any]any{}
	}
	if _, ok := m.m[k]; !ok {
		m.keys = append(m.keys, k)
	}
	m.m[k] = v
}

func (m *Map) Store(k, v any) {
	sched.YieldWhy("Map.Store")
	m.store(k, v)
}

func (m *Map) LoadOrStore(k, v any) (any, bool) {
	sched.YieldWhy("Map.LoadOrStore")
	if old, ok := m.m[k]; ok {
		return old, true
	}
	m.store(k, v)
	return v, false
}

func (m *Map) del(k any) {
	if _, ok := m.m[k]; ok {
		delete(m.m, k)
		for i, x := range m.keys {
			if x == k {
				m.keys = append(m.keys[:i:i], m.keys[i+1:]...)
				break
			}
		}
	}
}

func (m *Map) LoadAndDelete(k any) (any, bool) {
	sched.YieldWhy("Map.LoadAndDelete")
	v, ok := m.m[k]
	m.del(k)
	return v, ok
}

func (m *Map) Delete(k any) {
	sched.YieldWhy("Map.Delete")
	m.del(k)
}

func (m *Map) Swap(k, v any) (any, bool) {
	sched.YieldWhy("Map.Swap")
	old, ok := m.m[k]
	m.store(k, v)
	return old, ok
}

func (m *Map) CompareAndSwap(k, old, new any) bool {
	sched.YieldWhy("Map.CompareAndSwap")
	if cur, ok := m.m[k]; ok && cur == old {
		m.store(k, new)
		return true
	}
	return false
}

func (m *Map) CompareAndDelete(k, old any) bool {
	sched.YieldWhy("Map.CompareAndDelete")
	if cur, ok := m.m[k]; ok && cur == old {
		m.del(k)
		return true
	}
	return false
}

// Clear deletes all the entries (sync.Map.Clear, Go 1.23).
func (m *Map) Clear() {
	sched.YieldWhy("Map.Clear")
	m.m, m.keys = nil, nil
}

func (m *Map) Range(f func(k, v any) bool) {
	sched.YieldWhy("Map.Range")
	ks := append([]any(nil), m.keys...)
	for _, k := range ks {
		v, ok := m.m[k]
		if !ok {
			continue
		}
		if !f(k, v) {
			return
		}
	}
}

type Once struct {
	done bool
	m    Mutex
}

func (o *Once) Do(f func()) {
	sched.YieldWhy("Once.Do")
	if o.done {
		return
	}
	o.m.Lock()
	defer o.m.Unlock()
	if !o.done {
		defer func() { o.done = true }()
		f()
	}
}

type WaitGroup struct {
	n       int
	waiters []*sched.Task
}

func (w *WaitGroup) Add(d int) {
	sched.YieldWhy("WaitGroup.Add")
	w.n += d
	if w.n < 0 {
		panic("sync: negative WaitGroup counter")
	}
	if w.n == 0 {
		for _, t := range w.waiters {
			sched.Wake(t)
		}
		w.waiters = nil
	}
}
func (w *WaitGroup) Done() { w.Add(-1) }
func (w *WaitGroup) Wait() {
	sched.YieldWhy("WaitGroup.Wait")
	for w.n > 0 {
		w.waiters = append(w.waiters, sched.Cur())
		sched.Block("WaitGroup.Wait")
	}
}

// OnceFunc / OnceValue are forwarded in the simplest form.
func OnceFunc(f func()) func() {
	var o Once
	return func() { o.Do(f) }
}

// OnceValue and OnceValues follow the sync functions of the same name.
func OnceValue[T any](f func() T) func() T {
	var o Once
	var v T
	return func() T {
		o.Do(func() { v = f() })
		return v
	}
}

func OnceValues[T1, T2 any](f func() (T1, T2)) func() (T1, T2) {
	var o Once
	var v1 T1
	var v2 T2
	return func() (T1, T2) {
		o.Do(func() { v1, v2 = f() })
		return v1, v2
	}
}

// Pool is a deterministic stand-in for sync.Pool: a LIFO free list that never drops anything, so that an object
// put back in a dirty state is handed to the very next Get (sync.Pool allows that; the real one does it per P).
type Pool struct {
	New   func() any
	mu    realMutex
	items []any
}

func (p *Pool) Get() any {
	p.mu.Lock()
	defer p.mu.Unlock()
	if n := len(p.items); n > 0 {
		x := p.items[n-1]
		p.items = p.items[:n-1]
		return x
	}
	if p.New != nil {
		return p.New()
	}
	return nil
}

func (p *Pool) Put(x any) {
	if x == nil {
		return
	}
	p.mu.Lock()
	p.items = append(p.items, x)
	p.mu.Unlock()
}
