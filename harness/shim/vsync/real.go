package vsync

import "sync"

// realMutex protects shim-internal state that is also touched outside a controlled execution.
type realMutex = sync.Mutex
