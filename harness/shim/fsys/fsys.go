// Package fsys stands in for package syscall in the instrumented copies of lockedfile/internal/filelock: everything is
// passed through, except that the next Flock calls that take a lock can be made to fail with a chosen errno.
package fsys

import "syscall"

const (
	LOCK_SH = syscall.LOCK_SH
	LOCK_EX = syscall.LOCK_EX
	LOCK_UN = syscall.LOCK_UN
	LOCK_NB = syscall.LOCK_NB

	EINTR       = syscall.EINTR
	EAGAIN      = syscall.EAGAIN
	EWOULDBLOCK = syscall.EWOULDBLOCK
	ENOSYS      = syscall.ENOSYS
	ENOTSUP     = syscall.ENOTSUP
	EOPNOTSUPP  = syscall.EOPNOTSUPP
	EDEADLK     = syscall.EDEADLK
	EBADF       = syscall.EBADF
	EINVAL      = syscall.EINVAL
	ENOLCK      = syscall.ENOLCK
)

type Errno = syscall.Errno
type Stat_t = syscall.Stat_t

var (
	failLeft int
	failWith syscall.Errno
	// Calls counts the Flock calls that asked for a lock since the last FailNextFlocks.
	Calls int
)

// FailNextFlocks makes the next n lock-taking Flock calls fail with e (unlocking is never failed).
func FailNextFlocks(n int, e syscall.Errno) { failLeft, failWith, Calls = n, e, 0 }

func Flock(fd int, how int) error {
	if how&LOCK_UN == 0 {
		Calls++
		if failLeft > 0 {
			failLeft--
			return failWith
		}
	}
	return syscall.Flock(fd, how)
}
