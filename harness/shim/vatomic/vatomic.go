// Package vatomic replaces sync/atomic: every operation is a scheduling point
// and is otherwise a plain access (the scheduler runs one task at a time).
package vatomic

import (
	"unsafe"

	"verif/sched"
)

func y() { sched.YieldWhy("atomic") }

func LoadInt32(p *int32) int32                     { y(); return *p }
func LoadInt64(p *int64) int64                     { y(); return *p }
func LoadUint32(p *uint32) uint32                  { y(); return *p }
func LoadUint64(p *uint64) uint64                  { y(); return *p }
func LoadUintptr(p *uintptr) uintptr               { y(); return *p }
func LoadPointer(p *unsafe.Pointer) unsafe.Pointer { y(); return *p }

func StoreInt32(p *int32, v int32)                     { y(); *p = v }
func StoreInt64(p *int64, v int64)                     { y(); *p = v }
func StoreUint32(p *uint32, v uint32)                  { y(); *p = v }
func StoreUint64(p *uint64, v uint64)                  { y(); *p = v }
func StoreUintptr(p *uintptr, v uintptr)               { y(); *p = v }
func StorePointer(p *unsafe.Pointer, v unsafe.Pointer) { y(); *p = v }

func AddInt32(p *int32, d int32) int32         { y(); *p += d; return *p }
func AddInt64(p *int64, d int64) int64         { y(); *p += d; return *p }
func AddUint32(p *uint32, d uint32) uint32     { y(); *p += d; return *p }
func AddUint64(p *uint64, d uint64) uint64     { y(); *p += d; return *p }
func AddUintptr(p *uintptr, d uintptr) uintptr { y(); *p += d; return *p }

func SwapInt32(p *int32, v int32) int32     { y(); o := *p; *p = v; return o }
func SwapInt64(p *int64, v int64) int64     { y(); o := *p; *p = v; return o }
func SwapUint32(p *uint32, v uint32) uint32 { y(); o := *p; *p = v; return o }
func SwapUint64(p *uint64, v uint64) uint64 { y(); o := *p; *p = v; return o }

func CompareAndSwapInt32(p *int32, o, n int32) bool {
	y()
	if *p == o {
		*p = n
		return true
	}
	return false
}
func CompareAndSwapInt64(p *int64, o, n int64) bool {
	y()
	if *p == o {
		*p = n
		return true
	}
	return false
}
func CompareAndSwapUint32(p *uint32, o, n uint32) bool {
	y()
	if *p == o {
		*p = n
		return true
	}
	return false
}
func CompareAndSwapUint64(p *uint64, o, n uint64) bool {
	y()
	if *p == o {
		*p = n
		return true
	}
	return false
}

type Bool struct{ v bool }

func (b *Bool) Load() bool   { y(); return b.v }
func (b *Bool) Store(v bool) { y(); b.v = v }
func (b *Bool) Swap(v bool) bool {
	y()
	o := b.v
	b.v = v
	return o
}
func (b *Bool) CompareAndSwap(o, n bool) bool {
	y()
	if b.v == o {
		b.v = n
		return true
	}
	return false
}

type Int32 struct{ v int32 }

func (x *Int32) Load() int32        { y(); return x.v }
func (x *Int32) Store(v int32)      { y(); x.v = v }
func (x *Int32) Add(d int32) int32  { y(); x.v += d; return x.v }
func (x *Int32) Swap(v int32) int32 { y(); o := x.v; x.v = v; return o }
func (x *Int32) CompareAndSwap(o, n int32) bool {
	y()
	if x.v == o {
		x.v = n
		return true
	}
	return false
}

type Int64 struct{ v int64 }

func (x *Int64) Load() int64        { y(); return x.v }
func (x *Int64) Store(v int64)      { y(); x.v = v }
func (x *Int64) Add(d int64) int64  { y(); x.v += d; return x.v }
func (x *Int64) Swap(v int64) int64 { y(); o := x.v; x.v = v; return o }
func (x *Int64) CompareAndSwap(o, n int64) bool {
	y()
	if x.v == o {
		x.v = n
		return true
	}
	return false
}

type Uint32 struct{ v uint32 }

func (x *Uint32) Load() uint32         { y(); return x.v }
func (x *Uint32) Store(v uint32)       { y(); x.v = v }
func (x *Uint32) Add(d uint32) uint32  { y(); x.v += d; return x.v }
func (x *Uint32) Swap(v uint32) uint32 { y(); o := x.v; x.v = v; return o }
func (x *Uint32) CompareAndSwap(o, n uint32) bool {
	y()
	if x.v == o {
		x.v = n
		return true
	}
	return false
}

type Uint64 struct{ v uint64 }

func (x *Uint64) Load() uint64         { y(); return x.v }
func (x *Uint64) Store(v uint64)       { y(); x.v = v }
func (x *Uint64) Add(d uint64) uint64  { y(); x.v += d; return x.v }
func (x *Uint64) Swap(v uint64) uint64 { y(); o := x.v; x.v = v; return o }
func (x *Uint64) CompareAndSwap(o, n uint64) bool {
	y()
	if x.v == o {
		x.v = n
		return true
	}
	return false
}

type Value struct{ v any }

func (x *Value) Load() any   { y(); return x.v }
func (x *Value) Store(v any) { y(); x.v = v }
func (x *Value) Swap(v any) any {
	y()
	o := x.v
	x.v = v
	return o
}
func (x *Value) CompareAndSwap(o, n any) bool {
	y()
	if x.v == o {
		x.v = n
		return true
	}
	return false
}

type Pointer[T any] struct{ p *T }

func (x *Pointer[T]) Load() *T   { y(); return x.p }
func (x *Pointer[T]) Store(p *T) { y(); x.p = p }
func (x *Pointer[T]) Swap(p *T) *T {
	y()
	o := x.p
	x.p = p
	return o
}
func (x *Pointer[T]) CompareAndSwap(o, n *T) bool {
	y()
	if x.p == o {
		x.p = n
		return true
	}
	return false
}

// And / Or (Go 1.23): return the old value.
func AndInt32(p *int32, m int32) int32         { y(); o := *p; *p &= m; return o }
func AndUint32(p *uint32, m uint32) uint32     { y(); o := *p; *p &= m; return o }
func AndInt64(p *int64, m int64) int64         { y(); o := *p; *p &= m; return o }
func AndUint64(p *uint64, m uint64) uint64     { y(); o := *p; *p &= m; return o }
func AndUintptr(p *uintptr, m uintptr) uintptr { y(); o := *p; *p &= m; return o }
func OrInt32(p *int32, m int32) int32          { y(); o := *p; *p |= m; return o }
func OrUint32(p *uint32, m uint32) uint32      { y(); o := *p; *p |= m; return o }
func OrInt64(p *int64, m int64) int64          { y(); o := *p; *p |= m; return o }
func OrUint64(p *uint64, m uint64) uint64      { y(); o := *p; *p |= m; return o }
func OrUintptr(p *uintptr, m uintptr) uintptr  { y(); o := *p; *p |= m; return o }

func (x *Int32) And(m int32) int32    { y(); o := x.v; x.v &= m; return o }
func (x *Int32) Or(m int32) int32     { y(); o := x.v; x.v |= m; return o }
func (x *Int64) And(m int64) int64    { y(); o := x.v; x.v &= m; return o }
func (x *Int64) Or(m int64) int64     { y(); o := x.v; x.v |= m; return o }
func (x *Uint32) And(m uint32) uint32 { y(); o := x.v; x.v &= m; return o }
func (x *Uint32) Or(m uint32) uint32  { y(); o := x.v; x.v |= m; return o }
func (x *Uint64) And(m uint64) uint64 { y(); o := x.v; x.v &= m; return o }
func (x *Uint64) Or(m uint64) uint64  { y(); o := x.v; x.v |= m; return o }
