// Package fos is a drop-in replacement for package os for the code under test
// (cache, lockedfile). File-system operations are numbered; depending on the
// mode an operation can be made to fail, be cut short, or "crash" the activity
// (fault plans), or become a scheduling point of the cooperative scheduler.
package fos

import (
	"errors"
	"fmt"
	"io"
	"io/fs"
	"os"
	"strings"
	"sync"
	"time"

	"verif/sched"
)

// ---- control ----

type Kind int

const (
	None                 Kind = iota
	FailBefore                // return an injected error, no effect
	ShortWriteThenFail        // (write operations) write Cut bytes, then return an error
	CrashBefore               // halt the activity before the operation
	CrashAfter                // perform the operation, then halt
	CrashAfterShortWrite      // write Cut bytes, then halt
	ShortRead                 // (read operations) hand over at most max(1, Cut) bytes, no error: a legal short read
	FailOpensFrom             // from operation K on, every operation that needs a new descriptor fails (descriptor exhaustion); the others proceed
)

func (k Kind) String() string {
	return [...]string{"none", "fail-before", "short-write-then-fail", "crash-before", "crash-after", "crash-after-short-write", "short-read", "fail-opens-from"}[k]
}

type Plan struct {
	K    int // operation index (0-based) at which the fault strikes; -1 = never
	Kind Kind
	Cut  int // bytes written by a short write (clamped to n-1)
}

type Op struct {
	Index int
	Desc  string
	Write bool // data-writing operation (eligible for short writes)
	N     int  // bytes requested (writes)
}

// ErrInjected is the error returned by injected failures.
var ErrInjected = errors.New("fos: injected I/O error")

type crashSentinel struct{}

// IsCrash reports whether a recovered panic value is the simulated crash.
func IsCrash(v any) bool { _, ok := v.(crashSentinel); return ok }

type state struct {
	plan      Plan
	counting  bool
	n         int
	trace     []Op
	crashed   bool
	scheduled bool
	struck    bool
}

var st = state{plan: Plan{K: -1}}

// Reset puts the shim into pass-through mode.
func Reset() { st = state{plan: Plan{K: -1}} }

// Begin starts numbering operations from 0 with the given plan (K=-1: count only).
func Begin(p Plan) {
	mu.Lock()
	defer mu.Unlock()
	st = state{plan: p, counting: true}
}

// End stops fault injection and returns the operations seen since Begin.
func End() (ops []Op, struck bool, crashed bool) {
	mu.Lock()
	defer mu.Unlock()
	ops, struck, crashed = st.trace, st.struck, st.crashed
	st = state{plan: Plan{K: -1}}
	return
}

// Scheduled makes every operation a scheduling point (used inside sched.Run).
func Scheduled(on bool) { st.scheduled = on }

type action int

const (
	proceed action = iota
	failNow
	shortThenFail
	shortThenCrash
	noop // the activity has crashed: do nothing
	shortRead
)

// enter is called at the start of every intercepted operation.
// mu guards st against the goroutines of a server under test (an HTTP server handles every request in its own
// goroutine, even when the requests come one after the other). Scheduling points lie outside it.
var mu sync.Mutex

func enter(desc string, write bool, n int) (act action, cut int, after func()) {
	if st.scheduled {
		sched.YieldWhy("os." + desc)
	}
	mu.Lock()
	defer mu.Unlock()
	return enterLocked(desc, write, n)
}

func enterLocked(desc string, write bool, n int) (act action, cut int, after func()) {
	after = func() {}
	if st.crashed {
		return noop, 0, after
	}
	if !st.counting {
		return proceed, 0, after
	}
	idx := st.n
	st.n++
	st.trace = append(st.trace, Op{Index: idx, Desc: desc, Write: write, N: n})
	if st.plan.Kind == FailOpensFrom {
		if st.plan.K >= 0 && idx >= st.plan.K && (strings.HasPrefix(desc, "OpenFile(") || strings.HasPrefix(desc, "ReadFile(")) {
			st.struck = true
			return failNow, 0, after
		}
		return proceed, 0, after
	}
	if idx != st.plan.K {
		return proceed, 0, after
	}
	st.struck = true
	cut = st.plan.Cut
	if cut > n-1 {
		cut = n - 1
	}
	if cut < 0 {
		cut = 0
	}
	switch st.plan.Kind {
	case ShortRead:
		if strings.HasPrefix(desc, "Read(") {
			c := st.plan.Cut
			if c < 1 {
				c = 1
			}
			return shortRead, c, after
		}
		return proceed, 0, after
	case FailBefore:
		return failNow, 0, after
	case ShortWriteThenFail:
		if write && n > 0 {
			return shortThenFail, cut, after
		}
		return failNow, 0, after
	case CrashBefore:
		st.crashed = true
		panic(crashSentinel{})
	case CrashAfter:
		return proceed, 0, func() { st.crashed = true; panic(crashSentinel{}) }
	case CrashAfterShortWrite:
		if write && n > 0 {
			return shortThenCrash, cut, after
		}
		st.crashed = true
		panic(crashSentinel{})
	}
	return proceed, 0, after
}

func crashNow() {
	st.crashed = true
	panic(crashSentinel{})
}

func perr(op, path string) error {
	mu.Lock()
	e := failErr
	mu.Unlock()
	if e == nil {
		e = ErrInjected
	}
	return &fs.PathError{Op: op, Path: path, Err: e}
}

var failErr error

// SetFailErr chooses the error that injected failures carry (nil: ErrInjected), e.g. syscall.ENOENT for an open that finds
// a directory missing.
func SetFailErr(e error) {
	mu.Lock()
	failErr = e
	mu.Unlock()
}

// ---- File ----

// File wraps *os.File; every data-path method is intercepted. It embeds the
// real file so that Fd, Name, Stat etc. keep working (file locks need Fd).
type File struct {
	*os.File
}

func wrap(f *os.File, err error) (*File, error) {
	if err != nil {
		return nil, err
	}
	return &File{f}, nil
}

func OpenFile(name string, flag int, perm FileMode) (*File, error) {
	act, _, after := enter(fmt.Sprintf("OpenFile(%s,%s)", base(name), flagString(flag)), false, 0)
	switch act {
	case failNow:
		return nil, perr("open", name)
	case noop:
		return nil, perr("open", name)
	}
	f, err := wrap(os.OpenFile(name, flag, perm))
	after()
	return f, err
}

func Open(name string) (*File, error) { return OpenFile(name, O_RDONLY, 0) }
func Create(name string) (*File, error) {
	return OpenFile(name, O_RDWR|O_CREATE|O_TRUNC, 0666)
}

func (f *File) Read(b []byte) (int, error) {
	act, cut, after := enter("Read("+base(f.Name())+")", false, 0)
	if act == failNow || act == noop {
		return 0, perr("read", f.Name())
	}
	if act == shortRead && len(b) > cut {
		b = b[:cut]
	}
	n, err := f.File.Read(b)
	after()
	return n, err
}

func (f *File) ReadAt(b []byte, off int64) (int, error) {
	act, _, after := enter("ReadAt("+base(f.Name())+")", false, 0)
	if act == failNow || act == noop {
		return 0, perr("read", f.Name())
	}
	n, err := f.File.ReadAt(b, off)
	after()
	return n, err
}

func (f *File) write(desc string, b []byte, do func([]byte) (int, error)) (int, error) {
	act, cut, after := enter(fmt.Sprintf("%s(%s,%d bytes)", desc, base(f.Name()), len(b)), true, len(b))
	switch act {
	case failNow, noop:
		return 0, perr("write", f.Name())
	case shortThenFail:
		n, _ := do(b[:cut])
		return n, perr("write", f.Name())
	case shortThenCrash:
		do(b[:cut])
		crashNow()
	}
	n, err := do(b)
	after()
	return n, err
}

func (f *File) Write(b []byte) (int, error) { return f.write("Write", b, f.File.Write) }
func (f *File) WriteString(s string) (int, error) {
	return f.write("Write", []byte(s), f.File.Write)
}
func (f *File) WriteAt(b []byte, off int64) (int, error) {
	return f.write(fmt.Sprintf("WriteAt@%d", off), b, func(p []byte) (int, error) { return f.File.WriteAt(p, off) })
}

// ReadFrom / WriteTo must be overridden: io.Copy would otherwise use the
// promoted (*os.File) methods and bypass Read/Write above.
func (f *File) ReadFrom(r io.Reader) (int64, error) {
	buf := make([]byte, 32*1024)
	var total int64
	for {
		n, rerr := r.Read(buf)
		if n > 0 {
			w, werr := f.Write(buf[:n])
			total += int64(w)
			if werr != nil {
				return total, werr
			}
			if w < n {
				return total, io.ErrShortWrite
			}
		}
		if rerr == io.EOF {
			return total, nil
		}
		if rerr != nil {
			return total, rerr
		}
	}
}

func (f *File) WriteTo(w io.Writer) (int64, error) {
	buf := make([]byte, 32*1024)
	var total int64
	for {
		n, rerr := f.Read(buf)
		if n > 0 {
			m, werr := w.Write(buf[:n])
			total += int64(m)
			if werr != nil {
				return total, werr
			}
		}
		if rerr == io.EOF {
			return total, nil
		}
		if rerr != nil {
			return total, rerr
		}
	}
}

func (f *File) Truncate(size int64) error {
	act, _, after := enter(fmt.Sprintf("Truncate(%s,%d)", base(f.Name()), size), false, 0)
	if act == failNow || act == noop {
		return perr("truncate", f.Name())
	}
	err := f.File.Truncate(size)
	after()
	return err
}

func (f *File) Sync() error {
	act, _, after := enter("Sync("+base(f.Name())+")", false, 0)
	if act == failNow || act == noop {
		return perr("sync", f.Name())
	}
	err := f.File.Sync()
	after()
	return err
}

func (f *File) Close() error {
	act, _, after := enter("Close("+base(f.Name())+")", false, 0)
	switch act {
	case noop:
		// the activity is dead: the descriptor goes away with the process, nothing else happens
		f.File.Close()
		return perr("close", f.Name())
	case failNow:
		// a failing close still releases the descriptor (as close(2) does)
		f.File.Close()
		return perr("close", f.Name())
	}
	err := f.File.Close()
	after()
	return err
}

func (f *File) Readdirnames(n int) ([]string, error) {
	act, _, after := enter("Readdirnames("+base(f.Name())+")", false, 0)
	if act == failNow || act == noop {
		return nil, perr("readdirent", f.Name())
	}
	names, err := f.File.Readdirnames(n)
	after()
	return names, err
}

// ---- package-level functions ----

func Stat(name string) (FileInfo, error) {
	act, _, after := enter("Stat("+base(name)+")", false, 0)
	if act == failNow || act == noop {
		return nil, perr("stat", name)
	}
	fi, err := os.Stat(name)
	after()
	return fi, err
}

func Lstat(name string) (FileInfo, error) {
	act, _, after := enter("Lstat("+base(name)+")", false, 0)
	if act == failNow || act == noop {
		return nil, perr("lstat", name)
	}
	fi, err := os.Lstat(name)
	after()
	return fi, err
}

func Remove(name string) error {
	act, _, after := enter("Remove("+base(name)+")", false, 0)
	if act == failNow || act == noop {
		return perr("remove", name)
	}
	err := os.Remove(name)
	after()
	return err
}

func RemoveAll(name string) error {
	act, _, after := enter("RemoveAll("+base(name)+")", false, 0)
	if act == failNow || act == noop {
		return perr("removeall", name)
	}
	err := os.RemoveAll(name)
	after()
	return err
}

func Rename(oldp, newp string) error {
	act, _, after := enter("Rename("+base(oldp)+","+base(newp)+")", false, 0)
	if act == failNow || act == noop {
		return &LinkError{Op: "rename", Old: oldp, New: newp, Err: ErrInjected}
	}
	err := os.Rename(oldp, newp)
	after()
	return err
}

func Chtimes(name string, atime, mtime time.Time) error {
	act, _, after := enter("Chtimes("+base(name)+")", false, 0)
	if act == failNow || act == noop {
		return perr("chtimes", name)
	}
	err := os.Chtimes(name, atime, mtime)
	after()
	return err
}

func Chmod(name string, mode FileMode) error {
	act, _, after := enter("Chmod("+base(name)+")", false, 0)
	if act == failNow || act == noop {
		return perr("chmod", name)
	}
	err := os.Chmod(name, mode)
	after()
	return err
}

func Truncate(name string, size int64) error {
	act, _, after := enter(fmt.Sprintf("Truncate(%s,%d)", base(name), size), false, 0)
	if act == failNow || act == noop {
		return perr("truncate", name)
	}
	err := os.Truncate(name, size)
	after()
	return err
}

func ReadFile(name string) ([]byte, error) {
	act, _, after := enter("ReadFile("+base(name)+")", false, 0)
	if act == failNow || act == noop {
		return nil, perr("open", name)
	}
	b, err := os.ReadFile(name)
	after()
	return b, err
}

func WriteFile(name string, data []byte, perm FileMode) error {
	// os.WriteFile = open with O_TRUNC, write, close: modelled as those three operations
	f, err := OpenFile(name, O_WRONLY|O_CREATE|O_TRUNC, perm)
	if err != nil {
		return err
	}
	_, err = f.Write(data)
	if err1 := f.Close(); err1 != nil && err == nil {
		err = err1
	}
	return err
}

func Mkdir(name string, perm FileMode) error {
	act, _, after := enter("Mkdir("+base(name)+")", false, 0)
	if act == failNow || act == noop {
		return perr("mkdir", name)
	}
	err := os.Mkdir(name, perm)
	after()
	return err
}

func MkdirAll(name string, perm FileMode) error {
	// not numbered: cache.Open calls it 256 times and it is not part of any property's fault domain
	if st.crashed {
		return perr("mkdir", name)
	}
	return os.MkdirAll(name, perm)
}

func CreateTemp(dir, pattern string) (*File, error) {
	act, _, after := enter("CreateTemp("+base(dir)+")", false, 0)
	if act == failNow || act == noop {
		return nil, perr("open", dir)
	}
	f, err := wrap(os.CreateTemp(dir, pattern))
	after()
	return f, err
}

// Standard streams keep their identity.
var (
	Stdin  = &File{os.Stdin}
	Stdout = &File{os.Stdout}
	Stderr = &File{os.Stderr}
)

func NewFile(fd uintptr, name string) *File {
	f := os.NewFile(fd, name)
	if f == nil {
		return nil
	}
	return &File{f}
}

func base(p string) string {
	// last path element, shortened (hash file names are long)
	i := len(p) - 1
	for i >= 0 && p[i] != '/' {
		i--
	}
	b := p[i+1:]
	if len(b) > 14 {
		b = b[:6] + ".." + b[len(b)-4:]
	}
	return b
}

func flagString(flag int) string {
	s := ""
	switch flag & (O_RDONLY | O_WRONLY | O_RDWR) {
	case O_RDONLY:
		s = "RDONLY"
	case O_WRONLY:
		s = "WRONLY"
	case O_RDWR:
		s = "RDWR"
	}
	if flag&O_CREATE != 0 {
		s += "|CREATE"
	}
	if flag&O_TRUNC != 0 {
		s += "|TRUNC"
	}
	if flag&O_EXCL != 0 {
		s += "|EXCL"
	}
	if flag&O_APPEND != 0 {
		s += "|APPEND"
	}
	return s
}
