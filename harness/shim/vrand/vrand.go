// Package vrand replaces math/rand for the code under test: results are
// nondeterministic choices drawn by the scheduler's strategy.
package vrand

import "verif/sched"

func Intn(n int) int       { return sched.Choose(n) }
func Int31n(n int32) int32 { return int32(sched.Choose(int(n))) }
func Int63n(n int64) int64 { return int64(sched.Choose(int(n))) }
func Int() int             { return sched.Choose(256) }
func Perm(n int) []int {
	p := make([]int, n)
	for i := range p {
		p[i] = i
	}
	for i := n - 1; i > 0; i-- {
		j := sched.Choose(i + 1)
		p[i], p[j] = p[j], p[i]
	}
	return p
}
func Shuffle(n int, swap func(i, j int)) {
	for i := n - 1; i > 0; i-- {
		swap(i, sched.Choose(i+1))
	}
}
func Seed(int64) {}
