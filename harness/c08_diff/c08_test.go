package c08

import (
	"bytes"
	"fmt"
	"os"
	"path/filepath"
	"runtime"
	"strings"
	"sync"
	"sync/atomic"
	"testing"

	"github.com/rogpeppe/go-internal/diff"
	"github.com/rogpeppe/go-internal/txtar"
	"pgregory.net/rapid"

	"verif/vt"
)

var rec = vt.New("C08")

func TestMain(m *testing.M) { vt.Main(m, rec) }

type diffCase struct {
	Old vt.B `json:"old"`
	New vt.B `json:"new"`
}

// namesFor picks the two file names from a hash of the texts (a replayed case uses the same names): mostly the plain
// "old"/"new", sometimes names with blanks, tabs, non-ASCII letters, header look-alikes or nothing at all.
var namePairs = [][2]string{{"old", "new"}, {"old", "new"}, {"old", "new"}, {"a b", "c\td"}, {"", ""}, {"--- x", "+++ y"}, {"é/日本.txt", "é/日本.txt"}, {"@@ -1 +1 @@", "diff a b"}}

func namesFor(c diffCase) (string, string) {
	h := uint32(2166136261)
	for _, b := range c.Old {
		h = (h ^ uint32(b)) * 16777619
	}
	for _, b := range c.New {
		h = (h ^ uint32(b) ^ 0x55) * 16777619
	}
	p := namePairs[h%uint32(len(namePairs))]
	return p[0], p[1]
}

func checkDiff(c diffCase) *vt.Fail {
	oldName, newName := namesFor(c)
	var out []byte
	if f := vt.Guard("diff-panic", func() *vt.Fail {
		out = diff.Diff(oldName, append([]byte(nil), c.Old...), newName, append([]byte(nil), c.New...))
		return nil
	}); f != nil {
		return f
	}
	if f := vt.Stable(func() string { return fmt.Sprintf("Diff(%q, %q)", c.Old, c.New) }, out, func() {
		diff.Diff("left", []byte("another\npair\nof texts\n"), "right", []byte("another\npair of\ntexts\nthat differ\n"))
	}); f != nil {
		return f
	}
	if f := checkAliased(c, out); f != nil {
		return f
	}
	if err := Verify(out, c.Old, c.New, oldName, newName); err != nil {
		return vt.Failf("bad-diff", "Diff(%q: %q, %q: %q) = %q: %v", oldName, c.Old, newName, c.New, out, err)
	}
	return nil
}

// checkAliased passes the two texts as adjacent sub-slices of one buffer (the way a caller that has read both from one
// file or one archive would), with spare capacity behind each: the texts are what the slices hold, so the result must be
// the same as for separate copies, and Diff must leave its arguments alone.
func checkAliased(c diffCase, want []byte) *vt.Fail {
	buf := make([]byte, 0, len(c.Old)+len(c.New)+16)
	buf = append(buf, c.Old...)
	buf = append(buf, c.New...)
	buf = append(buf, "0123456789abcdef"...)
	old, new := buf[:len(c.Old)], buf[len(c.Old):len(c.Old)+len(c.New)]
	var out []byte
	oldName, newName := namesFor(c)
	if f := vt.Guard("diff-panic", func() *vt.Fail { out = diff.Diff(oldName, old, newName, new); return nil }); f != nil {
		return f
	}
	if !bytes.Equal(buf[:len(c.Old)], c.Old) || !bytes.Equal(buf[len(c.Old):len(c.Old)+len(c.New)], c.New) || string(buf[len(c.Old)+len(c.New):]) != "0123456789abcdef" {
		return vt.Failf("bad-diff", "Diff(%q, %q) modified the memory of its arguments (texts passed as adjacent sub-slices of one buffer): buffer is now %q", c.Old, c.New, buf)
	}
	if !bytes.Equal(out, want) {
		return vt.Failf("bad-diff", "Diff(%q, %q) = %q when the texts are adjacent sub-slices of one buffer, but %q for separate copies", c.Old, c.New, out, want)
	}
	return nil
}

// TestGolden validates the applier itself on the repository's golden diffs (model validation).
func TestGolden(t *testing.T) {
	files, _ := filepath.Glob(os.Getenv("VERIF_REPO") + "/diff/testdata/*.txt")
	if os.Getenv("VERIF_REPO") == "" {
		files, _ = filepath.Glob("/repo/diff/testdata/*.txt")
	}
	n := 0
	for _, f := range files {
		a, err := txtar.ParseFile(f)
		if err != nil || len(a.Files) != 3 {
			continue
		}
		clean := func(b []byte) []byte {
			b = bytes.ReplaceAll(b, []byte("$\n"), []byte("\n"))
			b = bytes.TrimSuffix(b, []byte("^D\n"))
			return b
		}
		old, new, want := clean(a.Files[0].Data), clean(a.Files[1].Data), clean(a.Files[2].Data)
		if err := Verify(want, old, new, "old", "new"); err != nil {
			rec.Infra("applier rejects the repository's golden diff %s: %v", filepath.Base(f), err)
			t.Errorf("%s: %v", f, err)
		}
		n++
	}
	rec.Class("golden-diffs-accepted", int64(n))
}

func seqs(alpha []string, maxLen int) [][]byte {
	var out [][]byte
	var rec func(cur []string)
	rec = func(cur []string) {
		if len(cur) == 0 {
			out = append(out, nil)
		} else {
			j := strings.Join(cur, "\n")
			out = append(out, []byte(j+"\n"), []byte(j))
		}
		if len(cur) == maxLen {
			return
		}
		for _, a := range alpha {
			rec(append(cur, a))
		}
	}
	rec(nil)
	// dedupe (a sequence ending in the empty line without newline equals a shorter one with newline)
	seen := map[string]bool{}
	var u [][]byte
	for _, s := range out {
		if !seen[string(s)] {
			seen[string(s)] = true
			u = append(u, s)
		}
	}
	return u
}

func TestExhaustive(t *testing.T) {
	alpha := []string{"a", "b", "c"}
	maxLen := 5
	if vt.Thorough() {
		alpha = []string{"a", "b", "c", ""}
		maxLen = 5
	}
	texts := seqs(alpha, maxLen)
	var total, nt, viol int64
	var wg sync.WaitGroup
	nw := runtime.GOMAXPROCS(0)
	if vt.NShards() > 1 {
		nw = 2
	}
	ch := make(chan int)
	for w := 0; w < nw; w++ {
		wg.Add(1)
		go func() {
			defer wg.Done()
			for i := range ch {
				for _, nw := range texts {
					if atomic.LoadInt64(&viol) > 3 {
						break
					}
					c := diffCase{Old: texts[i], New: nw}
					if !vt.CheckOne(rec, "diff", c, checkDiff) {
						atomic.AddInt64(&viol, 1)
					}
					atomic.AddInt64(&total, 1)
					if !bytes.Equal(texts[i], nw) {
						atomic.AddInt64(&nt, 1) // all short pairs have duplicate lines or missing newlines; count differing pairs
					}
				}
			}
		}()
	}
	for i := range texts {
		if i%vt.NShards() == vt.Shard() {
			ch <- i
		}
	}
	close(ch)
	wg.Wait()
	rec.Eval(total)
	rec.NonTrivialDistinct(nt)
	rec.Class("exhaustive:pairs", total)
	rec.Exhaustive(fmt.Sprintf("all pairs of texts with <= %d lines over %q, each with and without final newline (%d texts; this shard %d pairs)", maxLen, alpha, len(texts), total))
	rec.Sample("exhaustive", 1, diffCase{Old: vt.B("a\nb\na"), New: vt.B("b\na\n")})
	if viol > 0 {
		t.Errorf("%d violations", viol)
	}
}

var lookalikes = []string{"--- old", "+++ new", "@@ -1,2 +3,4 @@", `\ No newline at end of file`, "+x", "-x", " x", "diff old new", "", "}", "{", "x", "\\", "@@", "\r", "a\r", "\xff\xfe",
	// text that means something to a formatting routine
	"100%", "%d items", "%%", "%s", "%!d(MISSING)", "50% of %v"}

func genLines(t *rapid.T, n int, label string) []string {
	ls := make([]string, n)
	for i := range ls {
		switch rapid.IntRange(0, 9).Draw(t, label+"kind") {
		case 0, 1:
			ls[i] = rapid.SampledFrom(lookalikes).Draw(t, label+"look")
		case 2:
			ls[i] = rapid.SampledFrom([]string{"", "}", "x"}).Draw(t, label+"dup")
		default:
			ls[i] = fmt.Sprintf("L%d", rapid.IntRange(0, 400).Draw(t, label+"u"))
		}
	}
	return ls
}

func join(ls []string, finalNL bool) []byte {
	if len(ls) == 0 {
		return nil
	}
	s := strings.Join(ls, "\n")
	if finalNL {
		s += "\n"
	}
	return []byte(s)
}

func genDiff(t *rapid.T) diffCase {
	n := rapid.IntRange(0, 80).Draw(t, "n")
	old := genLines(t, n, "o")
	nw := append([]string(nil), old...)
	dense := rapid.Bool().Draw(t, "dense")
	k := rapid.IntRange(0, 6).Draw(t, "edits")
	for e := 0; e < k; e++ {
		pos := 0
		if len(nw) > 0 {
			if dense && e > 0 {
				pos = rapid.IntRange(0, min(len(nw), 12)).Draw(t, "pos")
			} else {
				pos = rapid.IntRange(0, len(nw)).Draw(t, "pos")
			}
		}
		switch rapid.IntRange(0, 3).Draw(t, "op") {
		case 0: // insert
			ins := genLines(t, rapid.IntRange(1, 3).Draw(t, "ni"), "i")
			nw = append(nw[:pos:pos], append(ins, nw[pos:]...)...)
		case 1: // delete
			m := rapid.IntRange(1, 3).Draw(t, "nd")
			end := min(len(nw), pos+m)
			nw = append(nw[:pos:pos], nw[end:]...)
		case 2: // replace
			if pos < len(nw) {
				nw[pos] = genLines(t, 1, "r")[0]
			}
		case 3: // move a block
			m := rapid.IntRange(1, 3).Draw(t, "nm")
			end := min(len(nw), pos+m)
			blk := append([]string(nil), nw[pos:end]...)
			rest := append(nw[:pos:pos], nw[end:]...)
			to := rapid.IntRange(0, len(rest)).Draw(t, "to")
			nw = append(rest[:to:to], append(blk, rest[to:]...)...)
		}
	}
	return diffCase{Old: join(old, rapid.IntRange(0, 3).Draw(t, "onl") != 0), New: join(nw, rapid.IntRange(0, 3).Draw(t, "nnl") != 0)}
}

func metaDiff(c diffCase) vt.Meta {
	if bytes.Equal(c.Old, c.New) {
		return vt.Meta{Classes: []string{"identical"}}
	}
	out := diff.Diff("old", c.Old, "new", c.New)
	h := Hunks(out, "old", "new")
	cl := []string{fmt.Sprintf("hunks=%d", min(h, 4))}
	nonl := (len(c.Old) > 0 && c.Old[len(c.Old)-1] != '\n') || (len(c.New) > 0 && c.New[len(c.New)-1] != '\n')
	if nonl {
		cl = append(cl, "missing-final-newline")
	}
	look := false
	for _, l := range lookalikes[:8] {
		if bytes.Contains(c.Old, []byte(l+"\n")) || bytes.Contains(c.New, []byte(l+"\n")) {
			look = true
		}
	}
	if look {
		cl = append(cl, "lookalike")
	}
	dup := false
	seen := map[string]int{}
	for _, l := range strings.Split(string(c.Old), "\n") {
		seen[l]++
	}
	for _, l := range strings.Split(string(c.New), "\n") {
		if seen[l] > 1 {
			dup = true
		}
	}
	return vt.Meta{NonTrivial: h >= 2 || nonl || look || dup, Classes: cl}
}

func TestRandom(t *testing.T) {
	vt.Run(t, rec, vt.Prop[diffCase]{Kind: "diff", Gen: genDiff, Check: checkDiff, Meta: metaDiff}, vt.N(60000, 400000))
}

var replayers = vt.Replayer{"diff": vt.Decode(checkDiff), "cmplog": vt.Decode(checkCmpLog)}

func TestReplay(t *testing.T) { vt.Replay(t, rec, replayers) }

func FuzzDiff(f *testing.F) {
	f.Add([]byte("a\nb\nc\n"), []byte("a\nc\n"))
	f.Add([]byte("a"), []byte("a\n"))
	f.Add([]byte("1\n2\n3\n4\n5\n6\n7\n8\n9\n10\n"), []byte("0\n1\n2\n3\n4\n5\n6\n7\n8\n9\n10\n11"))
	f.Add([]byte("\\ No newline at end of file\n"), []byte("\\ No newline at end of file"))
	f.Fuzz(func(t *testing.T, a, b []byte) {
		c := diffCase{Old: a, New: b}
		if fl := vt.Guard("harness-panic", func() *vt.Fail { return checkDiff(c) }); fl != nil {
			if rec.Report("diff", fl, c) {
				t.Fatalf("%v", fl)
			}
		}
	})
}
