// Package c08 holds an independent, strict, count-driven reader/applier of
// unified diffs, used as the oracle for diff.Diff.
package c08

import (
	"bytes"
	"fmt"
	"strconv"
	"strings"
)

type tline struct {
	s  string // content without newline
	nl bool   // terminated by a newline in the file
}

func splitText(b []byte) []tline {
	var out []tline
	for len(b) > 0 {
		i := bytes.IndexByte(b, '\n')
		if i < 0 {
			out = append(out, tline{string(b), false})
			break
		}
		out = append(out, tline{string(b[:i]), true})
		b = b[i+1:]
	}
	return out
}

func joinText(ls []tline) []byte {
	var b []byte
	for _, l := range ls {
		b = append(b, l.s...)
		if l.nl {
			b = append(b, '\n')
		}
	}
	return b
}

type hline struct {
	op byte // ' ', '-', '+'
	tline
}

type hunk struct {
	a, b, c, d int
	body       []hline
}

const noNL = `\ No newline at end of file`

// parseUnified reads the output of Diff strictly: three header lines, then
// hunks whose bodies are delimited by their counts only.
func parseUnified(out []byte, oldName, newName string) ([]hunk, error) {
	if len(out) == 0 || out[len(out)-1] != '\n' {
		return nil, fmt.Errorf("output does not end in a newline")
	}
	ls := strings.Split(string(out[:len(out)-1]), "\n")
	want := []string{"diff " + oldName + " " + newName, "--- " + oldName, "+++ " + newName}
	for i, w := range want {
		if i >= len(ls) || ls[i] != w {
			got := "<missing>"
			if i < len(ls) {
				got = ls[i]
			}
			return nil, fmt.Errorf("header line %d is %q, want %q", i+1, got, w)
		}
	}
	ls = ls[3:]
	var hs []hunk
	for len(ls) > 0 {
		h, err := parseHunkHeader(ls[0])
		if err != nil {
			return nil, err
		}
		ls = ls[1:]
		no, nn := 0, 0
		for no < h.b || nn < h.d {
			if len(ls) == 0 {
				return nil, fmt.Errorf("hunk @@ -%d,%d +%d,%d @@ ends early: %d/%d old and %d/%d new lines", h.a, h.b, h.c, h.d, no, h.b, nn, h.d)
			}
			l := ls[0]
			ls = ls[1:]
			if l == "" {
				return nil, fmt.Errorf("empty line inside hunk body (a body line must start with ' ', '-' or '+')")
			}
			switch l[0] {
			case ' ':
				no++
				nn++
			case '-':
				no++
			case '+':
				nn++
			case '\\':
				if l != noNL {
					return nil, fmt.Errorf("unexpected line %q in hunk", l)
				}
				if len(h.body) == 0 {
					return nil, fmt.Errorf("%q at the start of a hunk", l)
				}
				if !h.body[len(h.body)-1].nl {
					return nil, fmt.Errorf("%q twice for one line", l)
				}
				h.body[len(h.body)-1].nl = false
				continue
			default:
				return nil, fmt.Errorf("body line %q does not start with ' ', '-' or '+'", l)
			}
			if no > h.b || nn > h.d {
				return nil, fmt.Errorf("hunk @@ -%d,%d +%d,%d @@ body has more lines than its counts", h.a, h.b, h.c, h.d)
			}
			h.body = append(h.body, hline{l[0], tline{l[1:], true}})
		}
		// a no-newline marker may follow the last body line
		if len(ls) > 0 && ls[0] == noNL {
			if len(h.body) == 0 {
				return nil, fmt.Errorf("%q after an empty hunk", noNL)
			}
			h.body[len(h.body)-1].nl = false
			ls = ls[1:]
		}
		hs = append(hs, h)
	}
	if len(hs) == 0 {
		return nil, fmt.Errorf("no hunks")
	}
	return hs, nil
}

func parseHunkHeader(l string) (hunk, error) {
	var h hunk
	bad := fmt.Errorf("malformed hunk header %q", l)
	if !strings.HasPrefix(l, "@@ -") || !strings.HasSuffix(l, " @@") {
		return h, bad
	}
	mid := l[len("@@ -") : len(l)-len(" @@")]
	parts := strings.Split(mid, " +")
	if len(parts) != 2 {
		return h, bad
	}
	p := func(s string) (int, int, bool) {
		xs := strings.Split(s, ",")
		if len(xs) != 2 {
			return 0, 0, false
		}
		a, e1 := strconv.Atoi(xs[0])
		b, e2 := strconv.Atoi(xs[1])
		if e1 != nil || e2 != nil || a < 0 || b < 0 || strconv.Itoa(a) != xs[0] || strconv.Itoa(b) != xs[1] {
			return 0, 0, false
		}
		return a, b, true
	}
	var ok1, ok2 bool
	h.a, h.b, ok1 = p(parts[0])
	h.c, h.d, ok2 = p(parts[1])
	if !ok1 || !ok2 {
		return h, bad
	}
	return h, nil
}

// apply checks the hunks against src (the old text when forward, the new text
// when reverse) and returns the text they produce.
func apply(hs []hunk, src []tline, reverse bool) ([]tline, error) {
	var dst []tline
	pos := 0 // lines of src consumed
	for i, h := range hs {
		start, cnt, ostart, ocnt := h.a, h.b, h.c, h.d
		del, add := byte('-'), byte('+')
		if reverse {
			start, cnt, ostart, ocnt = h.c, h.d, h.a, h.b
			del, add = '+', '-'
		}
		before := start - 1 // lines preceding the hunk on this side
		if cnt == 0 {
			before = start
		}
		obefore := ostart - 1
		if ocnt == 0 {
			obefore = ostart
		}
		if before < 0 || obefore < 0 {
			return nil, fmt.Errorf("hunk %d: start line 0 with a non-zero count", i+1)
		}
		if before < pos {
			return nil, fmt.Errorf("hunk %d starts at line %d but the previous hunk already covered up to line %d (overlap or out of order)", i+1, before+1, pos)
		}
		if before > len(src) {
			return nil, fmt.Errorf("hunk %d starts beyond the end of the text", i+1)
		}
		dst = append(dst, src[pos:before]...)
		pos = before
		if len(dst) != obefore {
			return nil, fmt.Errorf("hunk %d: header says %d lines precede it on the other side, but %d do", i+1, obefore, len(dst))
		}
		for _, bl := range h.body {
			switch bl.op {
			case ' ', del:
				if pos >= len(src) {
					return nil, fmt.Errorf("hunk %d: line %q is beyond the end of the text", i+1, bl.s)
				}
				if src[pos] != bl.tline {
					return nil, fmt.Errorf("hunk %d: text line %d is %q (newline=%v) but the hunk says %q (newline=%v)", i+1, pos+1, src[pos].s, src[pos].nl, bl.s, bl.nl)
				}
				pos++
				if bl.op == ' ' {
					dst = append(dst, bl.tline)
				}
			case add:
				dst = append(dst, bl.tline)
			}
		}
	}
	dst = append(dst, src[pos:]...)
	for i, l := range dst {
		if !l.nl && i != len(dst)-1 {
			return nil, fmt.Errorf("result has an unterminated line %q that is not the last line", l.s)
		}
	}
	return dst, nil
}

// Verify checks that out is a correct, well-formed unified diff from old to new.
func Verify(out, old, new []byte, oldName, newName string) error {
	if bytes.Equal(old, new) {
		if len(out) != 0 {
			return fmt.Errorf("identical texts but output is %q", out)
		}
		return nil
	}
	if len(out) == 0 {
		return fmt.Errorf("texts differ but output is empty")
	}
	hs, err := parseUnified(out, oldName, newName)
	if err != nil {
		return err
	}
	fw, err := apply(hs, splitText(old), false)
	if err != nil {
		return fmt.Errorf("applying to old: %v", err)
	}
	if !bytes.Equal(joinText(fw), new) {
		return fmt.Errorf("applied to old it yields %q, not new %q", joinText(fw), new)
	}
	bw, err := apply(hs, splitText(new), true)
	if err != nil {
		return fmt.Errorf("applying in reverse to new: %v", err)
	}
	if !bytes.Equal(joinText(bw), old) {
		return fmt.Errorf("applied in reverse to new it yields %q, not old %q", joinText(bw), old)
	}
	return nil
}

// Hunks returns the number of hunks of a (well-formed) diff, 0 if unparsable.
func Hunks(out []byte, oldName, newName string) int {
	hs, _ := parseUnified(out, oldName, newName)
	return len(hs)
}
