package c08

// The diff as testscript's cmp / cmpenv show it (the second anchored file of the property): a failing comparison logs
// diff.Diff of the two texts that were compared - for cmpenv the second text after expansion of its environment
// references - so the logged diff, applied to the first text, has to reproduce the second one.

import (
	"fmt"
	"strings"
	"testing"
	"time"

	"github.com/rogpeppe/go-internal/testscript"
	"pgregory.net/rapid"

	"verif/tskit"
	"verif/vt"
)

type cmpLogCase struct {
	Old []string `json:"old"` // lines of the first file
	New []string `json:"new"` // lines of the second file; may hold the references $A and ${B}
	Env bool     `json:"env"` // cmpenv instead of cmp
	A   string   `json:"a"`
	B   string   `json:"b"`
	// First: where the first text comes from: "file" | "stdout" (the captured output of a cat of the file)
	First string `json:"first,omitempty"`
	// Long > 0: both texts start with one more line of that many bytes (a minified or base64 one-liner), the same on
	// both sides - context of the first change - or, with LongDiffers, different in its last byte
	Long        int  `json:"long,omitempty"`
	LongDiffers bool `json:"long_differs,omitempty"`
}

var cmpWords = []string{"alpha", "beta", "gamma", "x", "", "$A", "${B}", "pre $A post", "a-${B}-z", "v1", "two", "}", "+x", "-x", " x", "$A$A", "@@ -1 +1 @@", "100%", "%d"}
var cmpValues = []string{"v1", "alpha", "two", "x", "", "VALUE"}

func expandRef(lines []string, a, b string) []string {
	out := make([]string, len(lines))
	for i, l := range lines {
		l = strings.ReplaceAll(l, "${B}", b)
		l = strings.ReplaceAll(l, "$A", a)
		out[i] = l
	}
	return out
}

func okWord(l string) bool {
	for _, w := range cmpWords {
		if l == w {
			return true
		}
	}
	return false
}

// safeLine: a line of the first file (never expanded): nothing that txtar or the extraction of the diff from the log
// could trip over.
func safeLine(l string) bool {
	return len(l) <= 60 && !strings.ContainsAny(l, "\n\r") && !strings.HasPrefix(l, "-- ") && !strings.Contains(l, "FAIL:") && !strings.HasPrefix(l, "diff ")
}

func checkCmpLog(c cmpLogCase) *vt.Fail {
	if len(c.Old) > 40 || len(c.New) > 40 {
		return nil
	}
	for _, l := range c.New {
		if !okWord(l) {
			return nil
		}
	}
	for _, l := range c.Old {
		if !safeLine(l) {
			return nil
		}
	}
	okv := func(v string) bool {
		for _, x := range cmpValues {
			if x == v {
				return true
			}
		}
		return false
	}
	if !okv(c.A) || !okv(c.B) {
		return nil
	}
	text := func(ls []string) string {
		if len(ls) == 0 {
			return ""
		}
		return strings.Join(ls, "\n") + "\n"
	}
	if c.Long > 0 {
		if c.Long > 300000 {
			return nil
		}
		l1 := strings.Repeat("x", c.Long)
		l2 := l1
		if c.LongDiffers {
			l2 = l1[:c.Long-1] + "y"
		}
		c.Old = append([]string{l1}, c.Old...)
		c.New = append([]string{l2}, c.New...)
	}
	cmd := "cmp"
	want2 := text(c.New)
	if c.Env {
		cmd = "cmpenv"
		want2 = text(expandRef(c.New, c.A, c.B))
	}
	text1 := text(c.Old)
	name1 := "f1"
	script := fmt.Sprintf("env A=%s\nenv B=%s\n", c.A, c.B)
	if c.First == "stdout" {
		// (the first text is then what the captured output holds; no helper program is needed: cp stdout would be
		// circular, so the text is fed through stdin and cat)
		script += "stdin f1\nexec cat\n"
		name1 = "stdout"
	}
	script += fmt.Sprintf("%s %s f2\n-- f1 --\n%s-- f2 --\n%s", cmd, name1, text1, text(c.New))
	root := tskit.Scratch("c08cmp")
	defer tskit.RemoveAll(root)
	rr := tskit.RunInProcess(root, []tskit.ScriptFile{{Name: "s", Data: []byte(script)}}, tskit.RunOpts{Params: testscript.Params{}, Deadline: time.Minute})
	if len(rr.Subs) != 1 {
		return vt.Failf("HARNESS-runt", "RunT: %s %s", rr.Top.Verdict, rr.Top.Log)
	}
	sub := rr.Subs[0]
	ctx := fmt.Sprintf("\nscript:\n%s\nlog:\n%s", script, sub.Log)
	if text1 == want2 {
		if sub.Verdict != "pass" {
			return vt.Failf("cmp-equal-texts-reported-"+sub.Verdict, "the compared texts are equal but the run reported %s%s", sub.Verdict, ctx)
		}
		return nil
	}
	if sub.Verdict != "fail" {
		return vt.Failf("cmp-different-texts-reported-"+sub.Verdict, "the compared texts differ but the run reported %s%s", sub.Verdict, ctx)
	}
	head := fmt.Sprintf("diff %s f2\n", name1)
	i := strings.Index(sub.Log, head)
	j := strings.Index(sub.Log, "FAIL: ")
	if i < 0 || j < i {
		return vt.Failf("cmp-logs-no-diff", "the log of a failing %s holds no diff of the two texts%s", cmd, ctx)
	}
	// (Logf puts one newline of its own behind the diff)
	out := strings.TrimSuffix(sub.Log[i:j], "\n")
	if err := Verify([]byte(out), []byte(text1), []byte(want2), name1, "f2"); err != nil {
		return vt.Failf("cmp-logs-wrong-diff", "the diff logged by a failing %s is not a diff from the first text %q to the text it was compared with %q: %v%s", cmd, text1, want2, err, ctx)
	}
	return nil
}

func genCmpLog(t *rapid.T) cmpLogCase {
	c := cmpLogCase{Env: rapid.IntRange(0, 2).Draw(t, "env") != 0, A: rapid.SampledFrom(cmpValues).Draw(t, "a"), B: rapid.SampledFrom(cmpValues).Draw(t, "b")}
	n := rapid.IntRange(0, 8).Draw(t, "n")
	for i := 0; i < n; i++ {
		c.New = append(c.New, rapid.SampledFrom(cmpWords).Draw(t, "w"))
	}
	// the first text: the second one as written, or expanded, with a few edits
	switch rapid.IntRange(0, 3).Draw(t, "base") {
	case 0:
		c.Old = append([]string{}, c.New...)
	default:
		c.Old = expandRef(c.New, c.A, c.B)
	}
	for k, ne := 0, rapid.IntRange(0, 2).Draw(t, "nedits"); k < ne; k++ {
		pos := rapid.IntRange(0, len(c.Old)).Draw(t, "pos")
		if rapid.Bool().Draw(t, "ins") || pos >= len(c.Old) {
			w := rapid.SampledFrom(cmpWords).Draw(t, "iw")
			c.Old = append(c.Old[:pos], append([]string{w}, c.Old[pos:]...)...)
		} else {
			c.Old = append(c.Old[:pos], c.Old[pos+1:]...)
		}
	}
	if rapid.IntRange(0, 3).Draw(t, "first") == 0 {
		c.First = "stdout"
	}
	if rapid.IntRange(0, 11).Draw(t, "long") == 5 {
		c.Long = rapid.SampledFrom([]int{4096, 65534, 65535, 65536, 70000, 140000}).Draw(t, "longlen")
		c.LongDiffers = rapid.Bool().Draw(t, "longdiffers")
	}
	return c
}

func TestCmpLogsTheDiff(t *testing.T) {
	vt.Run(t, rec, vt.Prop[cmpLogCase]{Kind: "cmplog", Gen: genCmpLog, Check: checkCmpLog, Meta: func(c cmpLogCase) vt.Meta {
		cl := []string{"cmp-log"}
		changes := strings.Join(expandRef(c.New, c.A, c.B), "\n") != strings.Join(c.New, "\n")
		if c.Env && changes {
			cl = append(cl, "cmpenv-expansion-changes-text")
		}
		return vt.Meta{NonTrivial: c.Env && changes, Classes: cl}
	}}, vt.N(300, 4000))
}
