package c03

import (
	"bytes"
	"fmt"
	"os"
	"strings"
	"sync/atomic"
	"testing"

	"github.com/rogpeppe/go-internal/txtar"
	xtxtar "golang.org/x/tools/txtar"
	"pgregory.net/rapid"

	"verif/txtarref"
	"verif/vt"
)

var rec = vt.New("C03")

func TestMain(m *testing.M) { vt.Main(m, rec) }

// ---- oracle ----

type parseCase struct {
	Input vt.B `json:"input"`
}

func eqB(a, b []byte) bool { return bytes.Equal(a, b) } // nil ≡ empty

func sameArchive(a *txtar.Archive, b *txtar.Archive) string {
	if !eqB(a.Comment, b.Comment) {
		return fmt.Sprintf("comment %q vs %q", a.Comment, b.Comment)
	}
	if len(a.Files) != len(b.Files) {
		return fmt.Sprintf("%d files vs %d files (%s vs %s)", len(a.Files), len(b.Files), names(a), names(b))
	}
	for i := range a.Files {
		if a.Files[i].Name != b.Files[i].Name {
			return fmt.Sprintf("file %d name %q vs %q", i, a.Files[i].Name, b.Files[i].Name)
		}
		if !eqB(a.Files[i].Data, b.Files[i].Data) {
			return fmt.Sprintf("file %d (%q) data %q vs %q", i, a.Files[i].Name, a.Files[i].Data, b.Files[i].Data)
		}
	}
	return ""
}

func names(a *txtar.Archive) string {
	var s []string
	for _, f := range a.Files {
		s = append(s, fmt.Sprintf("%q", f.Name))
	}
	return "[" + strings.Join(s, " ") + "]"
}

func refToArchive(r txtarref.Archive) *txtar.Archive {
	a := &txtar.Archive{Comment: r.Comment}
	for _, f := range r.Files {
		a.Files = append(a.Files, txtar.File{Name: f.Name, Data: f.Data})
	}
	return a
}

// sampleExtras: during the exhaustive enumeration the argument-intact and result-stability checks run on one string in 16
// (chosen by a hash of the string); everywhere else they always run.
var sampleExtras atomic.Bool

func extrasFor(b []byte) bool {
	if !sampleExtras.Load() {
		return true
	}
	h := uint32(2166136261)
	for _, x := range b {
		h = (h ^ uint32(x)) * 16777619
	}
	return h%16 == 0
}

// checkParse is the oracle for one input byte string.
func checkParse(c parseCase) *vt.Fail {
	x := []byte(c.Input)
	extras := extrasFor(x)
	var a *txtar.Archive
	arg, intact := append([]byte(nil), x...), func() bool { return true }
	if extras {
		arg, intact = vt.WithSpare(x)
	}
	if f := vt.Guard("parse-panic", func() *vt.Fail { a = txtar.Parse(arg); return nil }); f != nil {
		return f
	}
	if a == nil {
		return vt.Failf("parse-nil", "Parse returned nil")
	}
	// (2) re-parse stability
	var b *txtar.Archive
	if f := vt.Guard("reparse-panic", func() *vt.Fail { b = txtar.Parse(txtar.Format(a)); return nil }); f != nil {
		return f
	}
	if extras {
		if f := vt.Stable(func() string { return fmt.Sprintf("Format(Parse(%q))", x) }, txtar.Format(a), func() {
			txtar.Format(txtar.Parse([]byte("other comment\n-- other.txt --\nother data\n-- second --\nno newline")))
		}); f != nil {
			return f
		}
	}
	if !intact() {
		return vt.Failf("argument-modified", "Parse(%q) followed by Format of the result modified the input or the memory behind it", x)
	}
	if d := sameArchive(a, b); d != "" {
		return vt.Failf("reparse-unstable", "Parse(Format(Parse(x))) differs from Parse(x): %s", d)
	}
	hasCR := bytes.IndexByte(x, '\r') >= 0
	ref := refToArchive(txtarref.Parse(x))
	// (4) differential with x/tools on CR-free input
	if !hasCR {
		xa := xtxtar.Parse(append([]byte(nil), x...))
		if d := sameArchive(a, xa); d != "" {
			return vt.Failf("differs-from-xtools", "Parse differs from golang.org/x/tools/txtar.Parse on CR-free input: %s", d)
		}
		if d := sameArchive(ref, xa); d != "" {
			// reference parser disagrees with the reference definition: harness error
			return vt.Failf("HARNESS-ref-vs-xtools", "reference parser differs from x/tools: %s", d)
		}
	}
	// (5) CRLF marker lines are recognised like LF ones: total reference parser
	if d := sameArchive(a, ref); d != "" {
		return vt.Failf("differs-from-reference", "Parse differs from the format definition (CR-aware reference parser): %s", d)
	}
	return nil
}

// crlfCase: for CR-free input, replacing the LF ending marker lines chosen by mask by CRLF changes nothing.
type crlfCase struct {
	Input vt.B   `json:"input"`
	Mask  uint32 `json:"mask"`
}

func checkCRLF(c crlfCase) *vt.Fail {
	x := []byte(c.Input)
	if bytes.IndexByte(x, '\r') >= 0 {
		return nil
	}
	base := xtxtar.Parse(append([]byte(nil), x...))
	ls, term := txtarref.Lines(x)
	var y []byte
	mi := 0
	changed := 0
	for i, l := range ls {
		y = append(y, l...)
		_, isM := txtarref.MarkerName(l)
		if isM {
			if c.Mask&(1<<uint(mi%32)) != 0 {
				y = append(y, '\r')
				changed++
			}
			mi++
		}
		if term[i] {
			y = append(y, '\n')
		}
	}
	if changed == 0 {
		return nil
	}
	var a *txtar.Archive
	if f := vt.Guard("parse-panic", func() *vt.Fail { a = txtar.Parse(y); return nil }); f != nil {
		return f
	}
	if d := sameArchive(a, base); d != "" {
		return vt.Failf("crlf-marker-differs", "input %q with CRLF on %d marker lines parses differently from the LF form: %s", y, changed, d)
	}
	return nil
}

// wfCase: a well-formed archive must round-trip exactly.
type wfFile struct {
	Name string `json:"name"`
	Data vt.B   `json:"data"`
}
type wfCase struct {
	Comment vt.B     `json:"comment"`
	Files   []wfFile `json:"files"`
}

func wellFormedBody(b []byte) bool {
	return (len(b) == 0 || b[len(b)-1] == '\n') && !txtarref.HasMarkerLine(b)
}

func checkWF(c wfCase) *vt.Fail {
	a := &txtar.Archive{Comment: []byte(c.Comment)}
	if !wellFormedBody(c.Comment) {
		return nil
	}
	for _, f := range c.Files {
		if f.Name == "" || strings.TrimSpace(f.Name) != f.Name || strings.ContainsAny(f.Name, "\n") || !wellFormedBody(f.Data) {
			return nil // generator only builds well-formed archives; replay files might not be
		}
		a.Files = append(a.Files, txtar.File{Name: f.Name, Data: []byte(f.Data)})
	}
	var b *txtar.Archive
	if f := vt.Guard("parse-panic", func() *vt.Fail { b = txtar.Parse(txtar.Format(a)); return nil }); f != nil {
		return f
	}
	if d := sameArchive(b, a); d != "" {
		return vt.Failf("wellformed-roundtrip", "Parse(Format(a)) != a for well-formed a: %s", d)
	}
	return nil
}

// ---- generators ----

var fragPool = []string{
	"-- ", " --", "--", "-- --", "--  --", "-- x --", "-- y --", "--   z   --", "-- a -- b --", "x", "hello", " ", "\t",
	"\u0085", " ", "-- \u0085 --", "--  x  --", ">", ">-- x --", "-", "\xff", "-- \xff --", "--\t--", "-- \t --",
}

// longLens: line lengths at and around the sizes of buffers a line-oriented scan might use
var longLens = []int{4095, 4096, 4097, 32767, 32768, 65534, 65535, 65536, 65537, 70000, 131073}

func genLine(t *rapid.T) []byte {
	n := rapid.IntRange(0, 4).Draw(t, "nfrag")
	var l []byte
	for i := 0; i < n; i++ {
		if rapid.IntRange(0, 299).Draw(t, "long") == 157 {
			// one very long piece (in a comment, a file body or a name - wherever this line ends up)
			unit := rapid.SampledFrom([]string{"x", "- ", ">", "ab ", "\u00e9"}).Draw(t, "longunit")
			k := rapid.SampledFrom(longLens).Draw(t, "longlen")
			l = append(l, bytes.Repeat([]byte(unit), k/len(unit)+1)[:k]...)
			continue
		}
		if rapid.IntRange(0, 9).Draw(t, "arb") == 0 {
			bs := rapid.SliceOfN(rapid.Byte(), 0, 4).Draw(t, "bytes")
			for _, b := range bs {
				if b != '\n' {
					l = append(l, b)
				}
			}
		} else {
			l = append(l, rapid.SampledFrom(fragPool).Draw(t, "frag")...)
		}
	}
	return l
}

func genText(t *rapid.T, maxLines int) []byte {
	n := rapid.IntRange(0, maxLines).Draw(t, "nlines")
	var x []byte
	for i := 0; i < n; i++ {
		x = append(x, genLine(t)...)
		switch rapid.IntRange(0, 9).Draw(t, "eol") {
		case 0, 1:
			x = append(x, '\r', '\n')
		case 2:
			if i == n-1 {
				x = append(x, '\r')
			} else {
				x = append(x, '\n')
			}
		case 3:
			if i != n-1 {
				x = append(x, '\n')
			}
		default:
			x = append(x, '\n')
		}
	}
	return x
}

func genParse(t *rapid.T) parseCase { return parseCase{Input: genText(t, 8)} }

func genCRLF(t *rapid.T) crlfCase {
	x := genText(t, 8)
	x = bytes.ReplaceAll(x, []byte("\r"), nil)
	return crlfCase{Input: x, Mask: rapid.Uint32().Draw(t, "mask")}
}

func genBody(t *rapid.T) []byte {
	for tries := 0; ; tries++ {
		x := genText(t, 5)
		if len(x) > 0 && x[len(x)-1] != '\n' {
			x = append(x, '\n')
		}
		if !txtarref.HasMarkerLine(x) {
			return x
		}
		// repair by construction: break every marker line by prefixing it
		ls, _ := txtarref.Lines(x)
		var y []byte
		for _, l := range ls {
			if _, ok := txtarref.MarkerName(l); ok {
				y = append(y, '#')
			}
			y = append(y, l...)
			y = append(y, '\n')
		}
		return y
	}
}

func genName(t *rapid.T) string {
	s := strings.TrimSpace(strings.ReplaceAll(string(genLine(t)), "\n", ""))
	if s == "" {
		s = rapid.SampledFrom([]string{"a", "b/c.txt", "-- x", "x --", "a b"}).Draw(t, "name")
	}
	return s
}

func genWF(t *rapid.T) wfCase {
	c := wfCase{Comment: genBody(t)}
	n := rapid.IntRange(0, 5).Draw(t, "nfiles")
	for i := 0; i < n; i++ {
		c.Files = append(c.Files, wfFile{Name: genName(t), Data: genBody(t)})
	}
	return c
}

// ---- tests ----

var alphabet = []byte("- x\n\r>")

func TestExhaustive(t *testing.T) {
	maxLen := 9
	if vt.Thorough() {
		maxLen = 11
	}
	var nt, viol int64
	sampleExtras.Store(true)
	defer sampleExtras.Store(false)
	total := txtarref.Enum(alphabet, maxLen, vt.Shard(), vt.NShards(), func(w int, s []byte) {
		if atomic.LoadInt64(&viol) > 5 {
			return
		}
		c := parseCase{Input: append(vt.B(nil), s...)}
		if !vt.CheckOne(rec, "parse", c, checkParse) {
			atomic.AddInt64(&viol, 1)
		}
		if txtarref.NearMarker(s) {
			atomic.AddInt64(&nt, 1)
		}
	})
	rec.Eval(total)
	rec.NonTrivialDistinct(nt)
	rec.Class("exhaustive:strings", total)
	rec.Class("exhaustive:near-marker", nt)
	rec.Exhaustive(fmt.Sprintf("all byte strings over %q of length <= %d (this shard: %d strings)", alphabet, maxLen, total))
	rec.Sample("exhaustive", 1, parseCase{Input: vt.B("-- x --\r\n- \n")})
	if viol > 0 {
		t.Errorf("%d violations", viol)
	}
}

var hostile = []string{"-- --", "-- x --\r", "--  --", "-- x --", "-- x --\r\n", "a\n-- x --", "-- x --\n-- y --\r", "-- \r --\r\n", "\n-- --", "-- x --\r\r\n"}

func TestHostile(t *testing.T) {
	for _, h := range hostile {
		rec.Eval(1)
		vt.CheckOne(rec, "parse", parseCase{Input: vt.B(h)}, checkParse)
	}
}

func TestParseRandom(t *testing.T) {
	vt.Run(t, rec, vt.Prop[parseCase]{Kind: "parse", Gen: genParse, Check: checkParse, Meta: func(c parseCase) vt.Meta {
		cl := []string{"no-cr"}
		if bytes.IndexByte(c.Input, '\r') >= 0 {
			cl = []string{"has-cr"}
		}
		if txtarref.HasMarkerLine(c.Input) {
			cl = append(cl, "has-marker")
		}
		return vt.Meta{NonTrivial: txtarref.NearMarker(c.Input), Classes: cl}
	}}, vt.N(30000, 400000))
}

func TestCRLF(t *testing.T) {
	vt.Run(t, rec, vt.Prop[crlfCase]{Kind: "crlf", Gen: genCRLF, Check: checkCRLF, Meta: func(c crlfCase) vt.Meta {
		return vt.Meta{NonTrivial: txtarref.HasMarkerLine(c.Input) && c.Mask != 0, Classes: nil}
	}}, vt.N(20000, 200000))
}

func TestWellFormed(t *testing.T) {
	vt.Run(t, rec, vt.Prop[wfCase]{Kind: "wellformed", Gen: genWF, Check: checkWF, Meta: func(c wfCase) vt.Meta {
		nm := false
		for _, f := range c.Files {
			if txtarref.NearMarker(f.Data) || txtarref.NearMarker([]byte(f.Name)) {
				nm = true
			}
		}
		return vt.Meta{NonTrivial: len(c.Files) > 0 && (nm || txtarref.NearMarker(c.Comment)), Classes: []string{fmt.Sprintf("files=%d", len(c.Files))}}
	}}, vt.N(10000, 150000))
}

var replayers = vt.Replayer{
	"parse":      vt.Decode(checkParse),
	"crlf":       vt.Decode(checkCRLF),
	"wellformed": vt.Decode(checkWF),
}

func TestReplay(t *testing.T) { vt.Replay(t, rec, replayers) }

// FuzzParse: coverage-guided search with the same oracle (thorough tier only).
func FuzzParse(f *testing.F) {
	for _, h := range hostile {
		f.Add([]byte(h))
	}
	if b, err := os.ReadFile(os.Getenv("VERIF_REPO") + "/txtar/testdata/basic.txtar"); err == nil {
		f.Add(b)
	}
	f.Fuzz(func(t *testing.T, x []byte) {
		c := parseCase{Input: x}
		if fl := vt.Guard("harness-panic", func() *vt.Fail { return checkParse(c) }); fl != nil {
			if rec.Report("parse", fl, c) {
				t.Fatalf("%v", fl)
			}
		}
	})
}
