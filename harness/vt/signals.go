package vt

import (
	"os"
	"os/signal"
)

// A shell without job control starts `cmd &` with SIGINT ignored, an ignored signal stays ignored across exec, and Go
// programs keep an inherited ignore of SIGINT: the helper commands of the generated scripts - this binary under another
// name, meant to die on the interrupt testscript sends them - would live on and perfectly good scripts would sit until the
// safety deadline. The driver (./run) gives the signal its default action back before it starts anything; this does the
// same for a test binary that is started by hand: taking the signal over makes the disposition a handler, which exec resets
// to the default action for every child.
func init() {
	if signal.Ignored(os.Interrupt) {
		c := make(chan os.Signal, 1)
		signal.Notify(c, os.Interrupt)
		go func() {
			<-c
			os.Exit(130)
		}()
	}
}
