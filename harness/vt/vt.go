// Package vt is the shared toolkit of the verification harness: run
// configuration from the environment, statistics/evidence recording, replay
// case I/O, known-finding lookup and a thin wrapper around rapid.Check that
// captures the shrunk failing case.
package vt

import (
	"bufio"
	"encoding/json"
	"flag"
	"fmt"
	"hash/fnv"
	"os"
	"os/exec"
	"runtime/debug"
	"sort"
	"strconv"
	"strings"
	"sync"
	"testing"
	"time"

	"pgregory.net/rapid"
)

// B is a byte string that marshals to a readable Go-quoted string.
type B []byte

func (b B) MarshalJSON() ([]byte, error) { return json.Marshal(strconv.Quote(string(b))) }
func (b *B) UnmarshalJSON(p []byte) error {
	var s string
	if err := json.Unmarshal(p, &s); err != nil {
		return err
	}
	u, err := strconv.Unquote(s)
	if err != nil {
		return err
	}
	*b = B(u)
	return nil
}

// Fail describes one violation of a property. Key is the root-cause
// signature used to match known findings; Msg explains what was observed.
type Fail struct {
	Key string `json:"key"`
	Msg string `json:"msg"`
}

func Failf(key, format string, args ...any) *Fail {
	return &Fail{Key: key, Msg: fmt.Sprintf(format, args...)}
}

func (f *Fail) Error() string { return f.Key + ": " + f.Msg }

// ---- configuration ----

func Tier() string {
	if os.Getenv("VERIF_TIER") == "thorough" {
		return "thorough"
	}
	return "quick"
}
func Thorough() bool { return Tier() == "thorough" }

func envInt(name string, def int) int {
	if v := os.Getenv(name); v != "" {
		if n, err := strconv.Atoi(v); err == nil {
			return n
		}
	}
	return def
}
func Seed() int    { return envInt("VERIF_SEED", 1) }
func Shard() int   { return envInt("VERIF_SHARD", 0) }
func NShards() int { return envInt("VERIF_NSHARDS", 1) }

// N picks a case count by tier; the value is per shard.
func N(quick, thorough int) int {
	n := quick
	if Thorough() {
		n = thorough
	}
	if s := os.Getenv("VERIF_SCALE"); s != "" {
		if f, err := strconv.ParseFloat(s, 64); err == nil {
			n = int(float64(n) * f)
			if n < 1 {
				n = 1
			}
		}
	}
	return n
}

// RapidSeed derives a non-zero rapid seed from VERIF_SEED, the shard and a salt.
func RapidSeed(salt string) uint64 {
	h := fnv.New64a()
	fmt.Fprintf(h, "%d/%d/%s", Seed(), Shard(), salt)
	s := h.Sum64()
	if s == 0 {
		s = 1
	}
	return s
}

// ---- known findings ----

var (
	knownOnce sync.Once
	known     map[string]bool
)

// Known reports whether KNOWN_FINDINGS.txt lists key as a finding for prop.
func Known(prop, key string) bool {
	knownOnce.Do(func() {
		known = map[string]bool{}
		path := os.Getenv("VERIF_KNOWN")
		if path == "" {
			path = "/verif/KNOWN_FINDINGS.txt"
		}
		f, err := os.Open(path)
		if err != nil {
			return
		}
		defer f.Close()
		sc := bufio.NewScanner(f)
		for sc.Scan() {
			line := strings.TrimSpace(sc.Text())
			if !strings.HasPrefix(line, "finding:") {
				continue
			}
			var p, k string
			for _, w := range strings.Fields(line) {
				if strings.HasPrefix(w, "property=") {
					p = strings.TrimPrefix(w, "property=")
				}
				if strings.HasPrefix(w, "key=") {
					k = strings.TrimPrefix(w, "key=")
				}
			}
			if p != "" && k != "" {
				known[p+"/"+k] = true
			}
		}
	})
	return known[prop+"/"+key]
}

// ---- recorder ----

type Violation struct {
	Kind string          `json:"kind"`
	Key  string          `json:"key"`
	Msg  string          `json:"msg"`
	Case json.RawMessage `json:"case"`
}

type Rec struct {
	mu          sync.Mutex
	Property    string
	evals       int64
	classes     map[string]int64
	nt          map[uint64]struct{}
	ntCounted   int64 // distinct by construction (enumerations)
	ntCapped    bool
	samples     []json.RawMessage
	sampleSeen  map[string]int
	violations  []Violation
	knownHits   map[string]int64
	knownSample map[string]json.RawMessage
	notes       []string
	exhaustive  []string
	infra       []string
	start       time.Time
}

const ntCap = 4 << 20

func New(prop string) *Rec {
	return &Rec{Property: prop, classes: map[string]int64{}, nt: map[uint64]struct{}{},
		sampleSeen: map[string]int{}, knownHits: map[string]int64{}, knownSample: map[string]json.RawMessage{}, start: time.Now()}
}

func (r *Rec) Eval(n int64) { r.mu.Lock(); r.evals += n; r.mu.Unlock() }
func (r *Rec) Class(name string, n int64) {
	r.mu.Lock()
	r.classes[name] += n
	r.mu.Unlock()
}

// NonTrivial records a non-trivial case by the hash of its canonical bytes.
func (r *Rec) NonTrivial(canon []byte) {
	h := fnv.New64a()
	h.Write(canon)
	r.NonTrivialHash(h.Sum64())
}
func (r *Rec) NonTrivialHash(h uint64) {
	r.mu.Lock()
	if len(r.nt) < ntCap {
		r.nt[h] = struct{}{}
	} else {
		r.ntCapped = true
	}
	r.mu.Unlock()
}

// NonTrivialDistinct adds n cases that are distinct by construction (an enumeration).
func (r *Rec) NonTrivialDistinct(n int64) { r.mu.Lock(); r.ntCounted += n; r.mu.Unlock() }

// Sample keeps up to max samples per group.
func (r *Rec) Sample(group string, max int, v any) {
	r.mu.Lock()
	defer r.mu.Unlock()
	if r.sampleSeen[group] >= max {
		return
	}
	b, err := json.Marshal(map[string]any{"group": group, "case": v})
	if err != nil {
		return
	}
	r.sampleSeen[group]++
	r.samples = append(r.samples, b)
}
func (r *Rec) Note(format string, args ...any) {
	r.mu.Lock()
	r.notes = append(r.notes, fmt.Sprintf(format, args...))
	r.mu.Unlock()
}
func (r *Rec) Exhaustive(desc string) {
	r.mu.Lock()
	r.exhaustive = append(r.exhaustive, desc)
	r.mu.Unlock()
}

// Infra records an inconclusive infrastructure problem (maps to exit 2).
func (r *Rec) Infra(format string, args ...any) {
	r.mu.Lock()
	r.infra = append(r.infra, fmt.Sprintf(format, args...))
	r.mu.Unlock()
}

// Report records a failure of a case: as a known-finding hit if listed, else as violation.
// It returns true if the failure is a (new) violation.
func (r *Rec) Report(kind string, f *Fail, c any) bool {
	if strings.HasPrefix(f.Key, "HARNESS") {
		// a problem of the harness itself (or an environment it cannot handle): inconclusive, never a violation
		r.Infra("%s: %s: %s", kind, f.Key, f.Msg)
		return false
	}
	raw, _ := json.Marshal(c)
	r.mu.Lock()
	defer r.mu.Unlock()
	if Known(r.Property, f.Key) {
		r.knownHits[f.Key]++
		if _, ok := r.knownSample[f.Key]; !ok {
			r.knownSample[f.Key] = raw
		}
		return false
	}
	if len(r.violations) < 20 {
		r.violations = append(r.violations, Violation{Kind: kind, Key: f.Key, Msg: f.Msg, Case: raw})
	}
	return true
}

func (r *Rec) Violations() int { r.mu.Lock(); defer r.mu.Unlock(); return len(r.violations) }

type outFile struct {
	Property    string                     `json:"property"`
	Tier        string                     `json:"tier"`
	Seed        int                        `json:"seed"`
	Shard       int                        `json:"shard"`
	Evaluations int64                      `json:"evaluations"`
	Classes     map[string]int64           `json:"classes"`
	NTHashes    []uint64                   `json:"nt_hashes"`
	NTCounted   int64                      `json:"nt_counted"`
	NTCapped    bool                       `json:"nt_capped"`
	Samples     []json.RawMessage          `json:"samples"`
	Violations  []Violation                `json:"violations"`
	KnownHits   map[string]int64           `json:"known_hits"`
	KnownSample map[string]json.RawMessage `json:"known_samples"`
	Notes       []string                   `json:"notes"`
	Exhaustive  []string                   `json:"exhaustive"`
	Infra       []string                   `json:"infra"`
	WallS       float64                    `json:"wall_s"`
}

// Flush writes the shard statistics to $VERIF_OUT (no-op if unset).
func (r *Rec) Flush() {
	path := os.Getenv("VERIF_OUT")
	r.mu.Lock()
	defer r.mu.Unlock()
	o := outFile{Property: r.Property, Tier: Tier(), Seed: Seed(), Shard: Shard(), Evaluations: r.evals,
		Classes: r.classes, NTCounted: r.ntCounted, NTCapped: r.ntCapped, Samples: r.samples,
		Violations: r.violations, KnownHits: r.knownHits, KnownSample: r.knownSample, Notes: r.notes,
		Exhaustive: r.exhaustive, Infra: r.infra, WallS: time.Since(r.start).Seconds()}
	o.NTHashes = make([]uint64, 0, len(r.nt))
	for h := range r.nt {
		o.NTHashes = append(o.NTHashes, h)
	}
	sort.Slice(o.NTHashes, func(i, j int) bool { return o.NTHashes[i] < o.NTHashes[j] })
	if path == "" {
		fmt.Printf("vt: %s evals=%d nontrivial=%d classes=%v violations=%d known=%v infra=%v\n", r.Property, r.evals,
			int64(len(r.nt))+r.ntCounted, r.classes, len(r.violations), r.knownHits, r.infra)
		for _, v := range r.violations {
			fmt.Printf("vt: VIOLATION kind=%s key=%s msg=%s case=%s\n", v.Kind, v.Key, v.Msg, v.Case)
		}
		return
	}
	b, _ := json.Marshal(o)
	tmp := path + ".tmp"
	if err := os.WriteFile(tmp, b, 0o644); err == nil {
		os.Rename(tmp, path)
	}
}

// Main is the TestMain body shared by the property packages.
func Main(m *testing.M, r *Rec) {
	code := m.Run()
	r.Flush()
	os.Exit(code)
}

// ---- guarded execution ----

// Guard runs f and converts a panic into a Fail with the given key.
func Guard(key string, f func() *Fail) (res *Fail) {
	defer func() {
		if e := recover(); e != nil {
			res = Failf(key, "panic: %v\n%s", e, trimStack(debug.Stack()))
		}
	}()
	return f()
}

func trimStack(b []byte) string {
	s := string(b)
	if len(s) > 1500 {
		s = s[:1500]
	}
	return s
}

// ---- rapid wrapper ----

// Meta describes a generated case for the evidence.
type Meta struct {
	NonTrivial bool
	Classes    []string
}

// Prop bundles a generator, a checker and a classifier for one kind of case.
type Prop[C any] struct {
	Kind  string
	Gen   func(*rapid.T) C
	Check func(C) *Fail
	Meta  func(C) Meta
	// SampleMax is the number of samples kept (default 3).
	SampleMax int
	// Reduce optionally proposes smaller variants of a failing case (e.g. the
	// operation list with one element removed); used after rapid's own
	// shrinking for a greedy delta-debugging pass that keeps the failure key.
	Reduce func(C) []C
	// Finalize optionally completes the failing case before it is recorded
	// (e.g. attaches the observed history of a schedule-dependent run).
	Finalize func(C) C
}

// Run drives p with rapid for n cases and records results in r.
func Run[C any](t *testing.T, r *Rec, p Prop[C], n int) {
	t.Helper()
	if r.Violations() > 0 && os.Getenv("VERIF_KEEP_GOING") == "" {
		t.Skip("a violation was already recorded in this run")
	}
	defer r.Flush() // keep what was found even if a later test hangs into the watchdog
	flag.Set("rapid.checks", strconv.Itoa(n))
	flag.Set("rapid.seed", strconv.FormatUint(RapidSeed(p.Kind), 10))
	flag.Set("rapid.nofailfile", "true")
	if os.Getenv("VERIF_SHRINKTIME") != "" {
		flag.Set("rapid.shrinktime", os.Getenv("VERIF_SHRINKTIME"))
	} else {
		flag.Set("rapid.shrinktime", "20s")
	}
	smax := p.SampleMax
	if smax == 0 {
		smax = 3
	}
	var lastCase *C
	var lastFail *Fail
	passed := int64(0)
	ok := t.Run(p.Kind, func(t *testing.T) {
		rapid.Check(t, func(rt *rapid.T) {
			c := p.Gen(rt)
			f := Guard("harness-panic", func() *Fail { return p.Check(c) })
			if f != nil {
				if Known(r.Property, f.Key) || strings.HasPrefix(f.Key, "HARNESS") {
					r.Report(p.Kind, f, c)
					r.Class("excluded:"+f.Key, 1)
					return
				}
				cc := c
				lastCase, lastFail = &cc, f
				rt.Fatalf("%s", f.Error())
			}
			passed++
			r.Eval(1)
			if p.Meta != nil {
				m := p.Meta(c)
				for _, cl := range m.Classes {
					r.Class(p.Kind+":"+cl, 1)
				}
				if m.NonTrivial {
					b, _ := json.Marshal(c)
					r.NonTrivial(append([]byte(p.Kind+"|"), b...))
					r.Sample(p.Kind+":nontrivial", smax, c)
				} else {
					r.Sample(p.Kind+":trivial", 1, c)
				}
			}
		})
	})
	r.Class(p.Kind+":cases", passed)
	if !ok {
		if lastFail != nil {
			if p.Reduce != nil {
				deadline := time.Now().Add(30 * time.Second)
				for progress := true; progress && time.Now().Before(deadline); {
					progress = false
					for _, cand := range p.Reduce(*lastCase) {
						cand := cand
						if f := Guard("harness-panic", func() *Fail { return p.Check(cand) }); f != nil && f.Key == lastFail.Key {
							lastCase, lastFail, progress = &cand, f, true
							break
						}
						if !time.Now().Before(deadline) {
							break
						}
					}
				}
			}
			if p.Finalize != nil {
				fc := p.Finalize(*lastCase)
				lastCase = &fc
			}
			r.Report(p.Kind, lastFail, *lastCase)
		} else {
			r.Infra("%s: rapid reported a failure without a recorded case (generator problem?)", p.Kind)
		}
	} else if passed < int64(n) {
		r.Infra("%s: only %d of %d cases ran (deadline?)", p.Kind, passed, n)
	}
}

// DropOne returns every variant of xs with one element removed (helper for Reduce).
func DropOne[E any](xs []E) [][]E {
	var out [][]E
	for i := range xs {
		ys := make([]E, 0, len(xs)-1)
		ys = append(ys, xs[:i]...)
		ys = append(ys, xs[i+1:]...)
		out = append(out, ys)
	}
	return out
}

// CheckOne runs a single deterministic case (regression constants, enumerations).
func CheckOne[C any](r *Rec, kind string, c C, check func(C) *Fail) bool {
	f := Guard("harness-panic", func() *Fail { return check(c) })
	if f != nil {
		return !r.Report(kind, f, c)
	}
	return true
}

// ---- replay ----

type ReplayFile struct {
	Property string          `json:"property"`
	Kind     string          `json:"kind"`
	Key      string          `json:"key,omitempty"`
	Msg      string          `json:"msg,omitempty"`
	Case     json.RawMessage `json:"case"`
}

// Replayer maps a case kind to a function that decodes and checks it.
type Replayer map[string]func(json.RawMessage) *Fail

func Decode[C any](check func(C) *Fail) func(json.RawMessage) *Fail {
	return func(raw json.RawMessage) *Fail {
		var c C
		if err := json.Unmarshal(raw, &c); err != nil {
			return Failf("replay-decode", "cannot decode case: %v", err)
		}
		return Guard("harness-panic", func() *Fail { return check(c) })
	}
}

// Replay runs every file listed in $VERIF_REPLAY (colon separated) and records failures.
// Committed regression files are passed the same way by the driver.
func Replay(t *testing.T, r *Rec, rp Replayer) {
	files := os.Getenv("VERIF_REPLAY")
	if files == "" {
		t.Skip("no VERIF_REPLAY")
	}
	for _, path := range strings.Split(files, ":") {
		if path == "" {
			continue
		}
		b, err := os.ReadFile(path)
		if err != nil {
			r.Infra("replay: %v", err)
			continue
		}
		var rf ReplayFile
		if err := json.Unmarshal(b, &rf); err != nil {
			r.Infra("replay %s: %v", path, err)
			continue
		}
		fn := rp[rf.Kind]
		if fn == nil {
			r.Infra("replay %s: unknown kind %q", path, rf.Kind)
			continue
		}
		r.Eval(1)
		r.Class("replay", 1)
		if f := fn(rf.Case); f != nil {
			if r.Report(rf.Kind, f, rf.Case) {
				t.Errorf("replay %s: %v", path, f)
			}
		}
	}
}

// WithSpare returns a copy of x that has spare capacity behind it filled with a known pattern, and a function that
// reports whether the copy and the spare bytes are still intact: code under test must neither modify its argument nor
// append into the caller's memory.
func WithSpare(x []byte) (arg []byte, intact func() bool) {
	const tail = "\xa5SPARE-CAPACITY\x5a"
	buf := make([]byte, 0, len(x)+len(tail))
	buf = append(buf, x...)
	buf = append(buf, tail...)
	orig := append([]byte(nil), x...)
	return buf[:len(x)], func() bool {
		return string(buf[:len(x)]) == string(orig) && string(buf[len(x):len(x)+len(tail)]) == tail
	}
}

// Stable checks that a result handed out by the code under test stays what it was while disturb makes further calls
// with other inputs (results must not alias memory that a later call reuses). what is only called on failure.
func Stable(what func() string, got []byte, disturb func()) *Fail {
	snapshot := append([]byte(nil), got...)
	disturb()
	if string(snapshot) != string(got) {
		return Failf("result-changed-by-later-call", "%s returned %q, which turned into %q after a later call with other arguments", what(), trunc(snapshot, 300), trunc(got, 300))
	}
	return nil
}

func trunc(b []byte, n int) []byte {
	if len(b) > n {
		return b[:n]
	}
	return b
}

// BlockedOrBusy decides what "a run that should end within milliseconds only ended through a safety deadline" means: a
// violation (key script-blocked-until-deadline) when the machine is responsive right now - a process round trip takes
// well under 100 ms -, an inconclusive note otherwise.
func BlockedOrBusy(r *Rec, msg string) *Fail {
	t0 := time.Now()
	exec.Command("/bin/true").Run()
	if probe := time.Since(t0); probe < 100*time.Millisecond {
		return Failf("script-blocked-until-deadline", "%s (machine responsive: process round trip %v)", msg, probe.Round(time.Millisecond))
	}
	r.Infra("a run only ended through a safety deadline while the machine was not responsive")
	return nil
}

// Patience waits for a result that should arrive at once. After d without one it does not call that a block yet: a
// machine shared with other checks has been seen to stall a single file operation for longer than 20 s. It waits a little
// more if the machine answers promptly right now (a process round trip well under 100 ms), and up to 90 s more if it
// does not; ok is false only when the result is still missing after that.
func Patience[T any](r *Rec, ch <-chan T, d time.Duration) (v T, ok bool) {
	select {
	case v = <-ch:
		return v, true
	case <-time.After(d):
	}
	extra := 4 * time.Second
	t0 := time.Now()
	exec.Command("/bin/true").Run()
	if time.Since(t0) >= 100*time.Millisecond {
		extra = 90 * time.Second
	}
	select {
	case v = <-ch:
		r.Class("slow-machine:result-arrived-after-the-watchdog", 1)
		return v, true
	case <-time.After(extra):
		return v, false
	}
}
