package c20

// One read of the served directory fails once (a transient I/O error) while the first requests come in. The statement
// says nothing about what the version that was hit then answers - the unchanged server remembers the failure and keeps
// answering 404 - but two things stay true for every implementation that keeps its promises: an answer that claims
// success is right (never a zip with a file twice or a stale .mod), and an answer, once given, does not change while the
// directory does not ("Responses are the same ..."). The server is the instrumented copy of goproxytest (and txtar),
// whose file operations go through the os shim.

import (
	"archive/zip"
	"bytes"
	"fmt"
	"io"
	"os"
	"path/filepath"
	"strings"
	"sync/atomic"
	"testing"

	"golang.org/x/mod/module"
	"pgregory.net/rapid"

	"verif/cachekit"
	goproxytestx "verif/gen/goproxytestx"
	"verif/shim/fos"
	"verif/vt"
)

type transientCase struct {
	Mods []modver `json:"mods"`
	K    int      `json:"k"` // index of the file operation (counted from the first request on) that fails once
	// ZipFirst: ask for the .zip of every version before its .info and .mod
	ZipFirst bool `json:"zip_first,omitempty"`
}

func checkTransient(c transientCase) *vt.Fail {
	if len(c.Mods) == 0 || len(c.Mods) > 6 || c.K < 0 || c.K > 60 {
		return nil
	}
	root := filepath.Join(cachekit.Scratch(), fmt.Sprintf("c20t-%d-%d", os.Getpid(), atomic.AddInt64(&seq, 1)))
	dir := filepath.Join(root, "mods")
	os.MkdirAll(dir, 0o777)
	defer os.RemoveAll(root)
	stored, ok := materialize(dir, proxyCase{Mods: c.Mods})
	if !ok {
		return nil
	}
	fos.Reset()
	var srv *goproxytestx.Server
	var err error
	for i := 0; i < 20; i++ {
		if srv, err = goproxytestx.NewServer(dir, ""); err == nil || !strings.Contains(err.Error(), "cannot listen") {
			break
		}
	}
	if err != nil {
		rec.Infra("cannot start the instrumented server: %v", err)
		return nil
	}
	defer srv.Close()
	cl := newClient()
	defer cl.CloseIdleConnections()
	type rq struct {
		m   modver
		ext string
		url string
	}
	var reqs []rq
	for _, m := range c.Mods {
		encP, _ := module.EscapePath(m.Path)
		encV, _ := module.EscapeVersion(m.Version)
		exts := []string{"info", "mod", "zip"}
		if c.ZipFirst {
			exts = []string{"zip", "info", "mod"}
		}
		for _, e := range exts {
			reqs = append(reqs, rq{m, e, srv.URL + "/" + encP + "/@v/" + encV + "." + e})
		}
	}
	pass := func() ([]resp, bool) {
		out := make([]resp, len(reqs))
		for i, r := range reqs {
			x, err := get(cl, r.url)
			if err != nil {
				rec.Infra("http: %v", err)
				return nil, false
			}
			out[i] = x
		}
		return out, true
	}
	fos.Begin(fos.Plan{K: c.K, Kind: fos.FailBefore})
	first, ok1 := pass()
	ops, struck, _ := fos.End()
	if !ok1 {
		return nil
	}
	opDesc := "none (fewer operations than that)"
	if struck && c.K < len(ops) {
		opDesc = ops[c.K].Desc
	}
	ctx := fmt.Sprintf("(file operation %d of the first round of requests failed once: %s)", c.K, opDesc)
	for i, r := range reqs {
		x := first[i]
		files := stored[r.m.Path+"@"+r.m.Version]
		what := fmt.Sprintf("GET %s@%s.%s (form %s)", r.m.Path, r.m.Version, r.ext, r.m.Form)
		if x.Status != 200 {
			if !struck {
				return vt.Failf("stored-version-not-served", "%s answered %d although nothing failed", what, x.Status)
			}
			continue // the version that was hit may be refused; which requests that covers is the server's business
		}
		switch r.ext {
		case "info", "mod":
			if !bytes.Equal(x.Body, files["."+r.ext]) {
				return vt.Failf(r.ext+"-differs", "%s answered 200 with %q, stored %q %s", what, x.Body, files["."+r.ext], ctx)
			}
		case "zip":
			zr, err := zip.NewReader(bytes.NewReader(x.Body), int64(len(x.Body)))
			if err != nil {
				return vt.Failf("zip-invalid", "%s: not a valid zip: %v %s", what, err, ctx)
			}
			got := map[string][]byte{}
			for _, zf := range zr.File {
				rc, err := zf.Open()
				if err != nil {
					return vt.Failf("zip-invalid", "%s: member %s: %v %s", what, zf.Name, err, ctx)
				}
				b, _ := io.ReadAll(rc)
				rc.Close()
				if _, dup := got[zf.Name]; dup {
					return vt.Failf("zip-members-differ", "%s answered 200 with a zip that holds %s twice %s", what, zf.Name, ctx)
				}
				got[zf.Name] = b
			}
			nwant := 0
			for name, data := range files {
				if strings.HasPrefix(name, ".") {
					continue
				}
				nwant++
				if g, ok := got[r.m.Path+"@"+r.m.Version+"/"+name]; !ok || !bytes.Equal(g, data) {
					return vt.Failf("zip-members-differ", "%s answered 200 with a zip in which %q is missing or different (members %v) %s", what, name, keys(got), ctx)
				}
			}
			if len(got) != nwant {
				return vt.Failf("zip-members-differ", "%s answered 200 with a zip of %d members, %d files are stored %s", what, len(got), nwant, ctx)
			}
		}
	}
	// what was answered stays answered
	for round := 2; round <= 3; round++ {
		again, ok := pass()
		if !ok {
			return nil
		}
		for i, r := range reqs {
			if again[i].Status != first[i].Status || !bytes.Equal(again[i].Body, first[i].Body) {
				return vt.Failf("response-changed-on-repeat", "GET %s@%s.%s (form %s) answered %d (%d bytes) in the first round and %d (%d bytes) in round %d, with the directory unchanged %s", r.m.Path, r.m.Version, r.ext, r.m.Form, first[i].Status, len(first[i].Body), again[i].Status, len(again[i].Body), round, ctx)
			}
		}
	}
	return nil
}

func TestTransientReadFault(t *testing.T) {
	vt.Run(t, rec, vt.Prop[transientCase]{Kind: "transient", Gen: func(t *rapid.T) transientCase {
		pc := genProxy(t)
		c := transientCase{Mods: pc.Mods, K: rapid.IntRange(0, 12).Draw(t, "k"), ZipFirst: rapid.Bool().Draw(t, "zipfirst")}
		if len(c.Mods) > 4 {
			c.Mods = c.Mods[:4]
		}
		for i := range c.Mods {
			// no padding: the fault is what matters here
			for j := range c.Mods[i].Files {
				c.Mods[i].Files[j].Pad = 0
			}
		}
		return c
	}, Check: checkTransient, Meta: func(c transientCase) vt.Meta {
		return vt.Meta{NonTrivial: true, Classes: []string{"transient-read-fault"}}
	}}, vt.N(40, 1500))
}
