package c20

import (
	"archive/zip"
	"bytes"
	"context"
	"encoding/json"
	"fmt"
	"io"
	"net"
	"net/http"
	"os"
	"os/exec"
	"path/filepath"
	"sort"
	"strings"
	"sync"
	"sync/atomic"
	"testing"
	"time"

	"github.com/rogpeppe/go-internal/goproxytest"
	"golang.org/x/mod/module"
	"golang.org/x/mod/semver"
	"golang.org/x/tools/txtar"
	"pgregory.net/rapid"

	"verif/cachekit"
	"verif/vt"
)

var rec = vt.New("C20")

func TestMain(m *testing.M) { vt.Main(m, rec) }

type mfile struct {
	Name string `json:"name"`
	Data vt.B   `json:"data"`
	// Pad appends that many filler bytes to Data when the module is materialised (large modules keep the
	// first request busy long enough for concurrent first requests to overlap with it).
	Pad int `json:"pad,omitempty"`
}

func (f mfile) content() []byte {
	if f.Pad <= 0 {
		return []byte(f.Data)
	}
	b := append([]byte(nil), f.Data...)
	line := []byte("0123456789abcdefghijklmnopqrstuvwxyz0123456789abcdefghijklmnopqrstuvwxyz\n")
	for len(b) < len(f.Data)+f.Pad {
		b = append(b, line...)
	}
	return b
}

type modver struct {
	Path    string  `json:"path"`
	Version string  `json:"version"`
	Form    string  `json:"form"` // txt | txtar | dir
	Info    vt.B    `json:"info"`
	Mod     vt.B    `json:"mod"`
	Files   []mfile `json:"files"`
}
type proxyCase struct {
	Mods   []modver `json:"mods"`
	Absent []string `json:"absent"` // extra request paths (after /mod/) expected to be 404
	Order  []int    `json:"order"`  // permutation seed for the concurrent phase
	E2E    bool     `json:"e2e"`
	// HashFirst: the requests that address a pseudo-version by its commit hash (answered with the data of a matching
	// stored version; not asserted beyond being well-formed HTTP) and the HEAD requests come before the by-version GET
	// requests instead of after.
	HashFirst bool `json:"hash_first,omitempty"`
	// Stray names entries of the served directory that are not module versions (a trailing / makes a directory).
	Stray []string `json:"stray,omitempty"`
	// Abort: before anything else, a client asks for every version's .zip and hangs up without reading the answer (the
	// very first request for that version): what the others get afterwards must not depend on it.
	Abort bool `json:"abort,omitempty"`
}

// hangUp sends one GET and closes the connection without reading the response.
func hangUp(base, path string) {
	// base is the server's URL, http://host:port/mod
	rest := strings.TrimPrefix(base, "http://")
	host, prefix := rest, ""
	if i := strings.Index(rest, "/"); i >= 0 {
		host, prefix = rest[:i], rest[i:]
	}
	conn, err := net.DialTimeout("tcp", host, 2*time.Second)
	if err != nil {
		return
	}
	fmt.Fprintf(conn, "GET %s HTTP/1.1\r\nHost: %s\r\n\r\n", prefix+path, host)
	time.Sleep(300 * time.Microsecond)
	conn.Close()
}

var seq int64

func isPseudo(v string) bool {
	// vX.0.0-yyyymmddhhmmss-abcdefabcdef | vX.Y.Z-pre.0.yyyymmddhhmmss-abcdefabcdef | vX.Y.(Z+1)-0.yyyymmddhhmmss-abcdefabcdef
	return module.IsPseudoVersion(v)
}

func fixNL(b []byte) []byte {
	if len(b) == 0 || b[len(b)-1] == '\n' {
		return b
	}
	return append(append([]byte(nil), b...), '\n')
}

// materialize writes the module directory and returns, per module version, the stored files as the proxy must see them.
func materialize(dir string, c proxyCase) (stored map[string]map[string][]byte, ok bool) {
	stored = map[string]map[string][]byte{}
	for _, m := range c.Mods {
		if module.CheckPath(m.Path) != nil || strings.Contains(m.Path, "_") {
			return nil, false
		}
		key := m.Path + "@" + m.Version
		if _, dup := stored[key]; dup {
			return nil, false
		}
		encP, err1 := module.EscapePath(m.Path)
		encV, err2 := module.EscapeVersion(m.Version)
		if err1 != nil || err2 != nil {
			return nil, false
		}
		base := filepath.Join(dir, strings.ReplaceAll(encP, "/", "_")+"_"+encV)
		files := map[string][]byte{}
		all := append([]mfile{{Name: ".info", Data: m.Info}, {Name: ".mod", Data: m.Mod}}, m.Files...)
		switch m.Form {
		case "txt", "txtar":
			a := &txtar.Archive{Comment: []byte("written by the C20 harness\n")}
			for _, f := range all {
				if _, dup := files[f.Name]; dup {
					return nil, false
				}
				a.Files = append(a.Files, txtar.File{Name: f.Name, Data: f.content()})
				files[f.Name] = fixNL(f.content())
			}
			if err := os.WriteFile(base+"."+m.Form, txtar.Format(a), 0o666); err != nil {
				return nil, false
			}
		case "dir":
			for _, f := range all {
				if _, dup := files[f.Name]; dup {
					return nil, false
				}
				p := filepath.Join(base, filepath.FromSlash(f.Name))
				if err := os.MkdirAll(filepath.Dir(p), 0o777); err != nil {
					return nil, false
				}
				if err := os.WriteFile(p, f.content(), 0o666); err != nil {
					return nil, false
				}
				files[f.Name] = f.content()
			}
		default:
			return nil, false
		}
		stored[key] = files
	}
	return stored, true
}

type resp struct {
	Status int
	Body   []byte
}

// newClient returns an HTTP client whose connections are reset on close (SO_LINGER 0), so that the
// thousands of short-lived servers of a run do not exhaust the ephemeral ports with TIME_WAIT sockets.
func newClient() *http.Client {
	d := &net.Dialer{Timeout: 10 * time.Second}
	tr := &http.Transport{MaxIdleConnsPerHost: 16, DialContext: func(ctx context.Context, network, addr string) (net.Conn, error) {
		c, err := d.DialContext(ctx, network, addr)
		if tc, ok := c.(*net.TCPConn); ok {
			tc.SetLinger(0)
		}
		return c, err
	}}
	return &http.Client{Transport: tr, Timeout: 30 * time.Second}
}

func startServer(dir string) (*goproxytest.Server, error) {
	var err error
	for i := 0; i < 50; i++ {
		var srv *goproxytest.Server
		srv, err = goproxytest.NewServer(dir, "")
		if err == nil {
			return srv, nil
		}
		if !strings.Contains(err.Error(), "cannot listen") {
			return nil, err
		}
		time.Sleep(200 * time.Millisecond)
	}
	return nil, err
}

func get(cl *http.Client, url string) (resp, error) {
	var r *http.Response
	var err error
	if u, ok := strings.CutPrefix(url, "HEAD "); ok {
		r, err = cl.Head(u)
	} else {
		r, err = cl.Get(url)
	}
	if err != nil {
		return resp{}, err
	}
	defer r.Body.Close()
	b, err := io.ReadAll(r.Body)
	return resp{r.StatusCode, b}, err
}

func checkProxy(c proxyCase) *vt.Fail {
	root := filepath.Join(cachekit.Scratch(), fmt.Sprintf("c20-%d-%d", os.Getpid(), atomic.AddInt64(&seq, 1)))
	dir := filepath.Join(root, "mods")
	os.MkdirAll(dir, 0o777)
	defer os.RemoveAll(root)
	stored, ok := materialize(dir, c)
	if !ok {
		return nil
	}
	for _, n := range c.Stray {
		if strings.Contains(n, "_v") || strings.ContainsAny(strings.TrimSuffix(n, "/"), "/\\") || n == "" || n == "/" {
			return nil
		}
		if strings.HasSuffix(n, "/") {
			os.MkdirAll(filepath.Join(dir, n, "inner"), 0o777)
		} else {
			os.WriteFile(filepath.Join(dir, n), []byte("not a module\n-- x --\ny\n"), 0o666)
		}
	}
	srv, err := startServer(dir)
	if err != nil {
		if strings.Contains(err.Error(), "cannot listen") {
			rec.Infra("cannot listen: %v", err)
			return nil
		}
		return vt.Failf("server-start-failed", "NewServer on a generated directory failed: %v", err)
	}
	cl := newClient()
	defer srv.Close()
	defer cl.CloseIdleConnections()
	if c.Abort {
		for _, m := range c.Mods {
			encP, _ := module.EscapePath(m.Path)
			encV, _ := module.EscapeVersion(m.Version)
			hangUp(srv.URL, "/"+encP+"/@v/"+encV+".zip")
		}
		time.Sleep(30 * time.Millisecond) // let the server notice
	}
	// ---- sequential phase with the oracle ----
	type req struct {
		url   string
		check func(resp) *vt.Fail
	}
	var reqs []req
	byPath := map[string][]string{}
	for _, m := range c.Mods {
		byPath[m.Path] = append(byPath[m.Path], m.Version)
	}
	for _, m := range c.Mods {
		m := m
		encP, _ := module.EscapePath(m.Path)
		encV, _ := module.EscapeVersion(m.Version)
		files := stored[m.Path+"@"+m.Version]
		base := srv.URL + "/" + encP + "/@v/" + encV
		for _, ext := range []string{"info", "mod"} {
			ext := ext
			reqs = append(reqs, req{base + "." + ext, func(r resp) *vt.Fail {
				if r.Status != 200 || !bytes.Equal(r.Body, files["."+ext]) {
					return vt.Failf(ext+"-differs", "GET %s@%s.%s (form %s): status %d body %q, stored %q", m.Path, m.Version, ext, m.Form, r.Status, r.Body, files["."+ext])
				}
				return nil
			}})
		}
		reqs = append(reqs, req{base + ".zip", func(r resp) *vt.Fail {
			if r.Status != 200 {
				return vt.Failf("zip-status", "GET %s@%s.zip: status %d", m.Path, m.Version, r.Status)
			}
			zr, err := zip.NewReader(bytes.NewReader(r.Body), int64(len(r.Body)))
			if err != nil {
				return vt.Failf("zip-invalid", "GET %s@%s.zip: not a valid zip: %v", m.Path, m.Version, err)
			}
			got := map[string][]byte{}
			for _, zf := range zr.File {
				rc, err := zf.Open()
				if err != nil {
					return vt.Failf("zip-invalid", "zip member %s: %v", zf.Name, err)
				}
				b, _ := io.ReadAll(rc)
				rc.Close()
				if _, dup := got[zf.Name]; dup {
					return vt.Failf("zip-members-differ", "zip member %s appears twice", zf.Name)
				}
				got[zf.Name] = b
			}
			want := map[string][]byte{}
			for name, data := range files {
				if !strings.HasPrefix(name, ".") {
					want[m.Path+"@"+m.Version+"/"+name] = data
				}
			}
			for n, d := range want {
				g, ok := got[n]
				if !ok {
					return vt.Failf("zip-members-differ", "%s@%s.zip (form %s) lacks %q; members: %v", m.Path, m.Version, m.Form, n, keys(got))
				}
				if !bytes.Equal(g, d) {
					return vt.Failf("zip-content-differs", "%s@%s.zip member %q holds %q, stored %q", m.Path, m.Version, n, g, d)
				}
			}
			for n := range got {
				if _, ok := want[n]; !ok {
					return vt.Failf("zip-members-differ", "%s@%s.zip (form %s) has unexpected member %q", m.Path, m.Version, m.Form, n)
				}
			}
			return nil
		}})
	}
	var hashReqs []req
	for _, m := range c.Mods {
		if !isPseudo(m.Version) {
			continue
		}
		encP, _ := module.EscapePath(m.Path)
		hash := m.Version[strings.LastIndex(m.Version, "-")+1:]
		for _, f := range []string{hash + ".zip", hash + ".info", hash[:7] + ".zip", hash + ".mod"} {
			hashReqs = append(hashReqs, req{srv.URL + "/" + encP + "/@v/" + f, func(r resp) *vt.Fail { return nil }})
		}
	}
	// HEAD requests for stored versions (answers not asserted; what they may leave behind in the server is what the
	// strict by-version checks see)
	for _, m := range c.Mods {
		encP, _ := module.EscapePath(m.Path)
		encV, _ := module.EscapeVersion(m.Version)
		for _, ext := range []string{"info", "zip"} {
			hashReqs = append(hashReqs, req{"HEAD " + srv.URL + "/" + encP + "/@v/" + encV + "." + ext, func(r resp) *vt.Fail { return nil }})
		}
	}
	if c.HashFirst {
		reqs = append(hashReqs, reqs...)
		hashReqs = nil
	}
	var paths []string
	for p := range byPath {
		paths = append(paths, p)
	}
	sort.Strings(paths)
	for _, p := range paths {
		p := p
		encP, _ := module.EscapePath(p)
		var want []string
		for _, v := range byPath[p] {
			if !isPseudo(v) && module.Check(p, v) == nil {
				want = append(want, v)
			}
		}
		sort.Strings(want)
		reqs = append(reqs, req{srv.URL + "/" + encP + "/@v/list", func(r resp) *vt.Fail {
			if len(want) == 0 && r.Status == 404 {
				return nil
			}
			var got []string
			for _, l := range strings.Split(string(r.Body), "\n") {
				if l != "" {
					got = append(got, l)
				}
			}
			sort.Strings(got)
			if r.Status != 200 || strings.Join(got, ",") != strings.Join(want, ",") {
				return vt.Failf("list-differs", "GET %s/@v/list: status %d versions %v, want %v (stored versions %v)", p, r.Status, got, want, byPath[p])
			}
			return nil
		}})
	}
	for _, a := range c.Absent {
		a := a
		if absentIsStored(a, c) {
			continue
		}
		reqs = append(reqs, req{srv.URL + "/" + a, func(r resp) *vt.Fail {
			if r.Status != 404 {
				return vt.Failf("absent-not-404", "GET /mod/%s is not stored but the proxy answered %d %q", a, r.Status, trunc(r.Body))
			}
			return nil
		}})
	}
	// anything outside the proxy's URL space is not stored either
	reqs = append(reqs, req{strings.TrimSuffix(srv.URL, "/mod") + "/other/example.com/a/@v/list", func(r resp) *vt.Fail {
		if r.Status != 404 {
			return vt.Failf("absent-not-404", "GET /other/... (outside /mod/) answered %d %q", r.Status, trunc(r.Body))
		}
		return nil
	}})
	reqs = append(reqs, hashReqs...)
	seqResp := make([]resp, len(reqs))
	for i, rq := range reqs {
		r, err := get(cl, rq.url)
		if err != nil {
			rec.Infra("http: %v", err)
			return nil
		}
		seqResp[i] = r
		if f := rq.check(r); f != nil {
			return f
		}
	}
	// responses must be stable: ask for everything a second time, after every other first request has been served
	for i, rq := range reqs {
		r, err := get(cl, rq.url)
		if err != nil {
			continue
		}
		if r.Status != seqResp[i].Status || !bytes.Equal(r.Body, seqResp[i].Body) {
			return vt.Failf("response-changed-on-repeat", "GET %s answered %d (%d bytes) the first time and %d (%d bytes) after other modules had been requested", strings.TrimPrefix(rq.url, srv.URL), seqResp[i].Status, len(seqResp[i].Body), r.Status, len(r.Body))
		}
	}
	// ---- concurrent phase against a fresh server: first requests race to fill the caches ----
	srv2, err := startServer(dir)
	if err != nil {
		rec.Infra("cannot start second server: %v", err)
		return nil
	}
	defer srv2.Close()
	defer cl.CloseIdleConnections()
	order := make([]int, 0, 3*len(reqs))
	for rep := 0; rep < 3; rep++ {
		for i := range reqs {
			order = append(order, i)
		}
	}
	for i := range order {
		if len(c.Order) > 0 {
			j := (c.Order[i%len(c.Order)] + i*7) % len(order)
			order[i], order[j] = order[j], order[i]
		}
	}
	var wg sync.WaitGroup
	var mu sync.Mutex
	var fail *vt.Fail
	ch := make(chan int)
	for w := 0; w < 16; w++ {
		wg.Add(1)
		go func() {
			defer wg.Done()
			for i := range ch {
				u := strings.Replace(reqs[i].url, srv.URL, srv2.URL, 1)
				r, err := get(cl, u)
				if err != nil {
					// a request the server accepted and then dropped (EOF / reset) is a wrong response; failures to
					// connect or time-outs are the environment's
					if msg := err.Error(); strings.Contains(msg, "EOF") || strings.Contains(msg, "connection reset") {
						mu.Lock()
						if fail == nil {
							fail = vt.Failf("concurrent-request-dropped", "under 16 concurrent clients GET %s was accepted and then dropped by the server: %v", strings.TrimPrefix(u, srv2.URL), err)
						}
						mu.Unlock()
					}
					continue
				}
				if r.Status != seqResp[i].Status || !bytes.Equal(r.Body, seqResp[i].Body) {
					mu.Lock()
					if fail == nil {
						fail = vt.Failf("concurrent-response-differs", "under 16 concurrent clients GET %s answered %d (%d bytes) but %d (%d bytes) sequentially", strings.TrimPrefix(u, srv2.URL), r.Status, len(r.Body), seqResp[i].Status, len(seqResp[i].Body))
					}
					mu.Unlock()
				}
			}
		}()
	}
	for _, i := range order {
		ch <- i
	}
	close(ch)
	wg.Wait()
	if fail != nil {
		return fail
	}
	if c.E2E {
		return e2e(root, srv.URL, c, stored)
	}
	return nil
}

func keys(m map[string][]byte) []string {
	var ks []string
	for k := range m {
		ks = append(ks, k)
	}
	sort.Strings(ks)
	return ks
}

func trunc(b []byte) string {
	if len(b) > 80 {
		b = b[:80]
	}
	return string(b)
}

// absentIsStored reports whether an "absent" request accidentally names something stored (or an all-hex version, which resolves by hash prefix by design).
func absentIsStored(a string, c proxyCase) bool {
	i := strings.Index(a, "/@v/")
	if i < 0 {
		return false
	}
	p, err := module.UnescapePath(a[:i])
	if err != nil {
		return false
	}
	file := a[i+4:]
	if file == "list" {
		for _, m := range c.Mods {
			if m.Path == p {
				return true
			}
		}
		return false
	}
	j := strings.LastIndex(file, ".")
	if j < 0 {
		return false
	}
	v, err := module.UnescapeVersion(file[:j])
	if err != nil {
		return false
	}
	hex := v != ""
	for _, ch := range v {
		if !strings.ContainsRune("0123456789abcdef", ch) {
			hex = false
		}
	}
	if hex {
		return true
	}
	ext := file[j+1:]
	for _, m := range c.Mods {
		if m.Path == p && m.Version == v && (ext == "info" || ext == "mod" || ext == "zip") {
			return true
		}
	}
	return false
}

// e2e downloads every checkable module version with the go command and compares the extracted tree.
func e2e(root, url string, c proxyCase, stored map[string]map[string][]byte) *vt.Fail {
	gobin, err := exec.LookPath("go")
	if err != nil {
		return nil
	}
	work := filepath.Join(root, "work")
	os.MkdirAll(work, 0o777)
	os.WriteFile(filepath.Join(work, "go.mod"), []byte("module example.com/verifwork\n\ngo 1.21\n"), 0o666)
	for _, m := range c.Mods {
		if module.Check(m.Path, m.Version) != nil || semver.Canonical(m.Version) != strings.TrimSuffix(m.Version, "+incompatible") {
			// (the go command treats a shortened version such as v1 as a query, not as a version)
			continue
		}
		cmd := exec.Command(gobin, "mod", "download", "-json", m.Path+"@"+m.Version)
		cmd.Dir = work
		cmd.Env = append(os.Environ(), "GOPROXY="+url, "GONOSUMDB=*", "GONOSUMCHECK=1", "GOFLAGS=-mod=mod", "GONOPROXY=", "GOPRIVATE=", "GOSUMDB=off",
			"GOMODCACHE="+filepath.Join(root, "modcache"), "GOCACHE="+filepath.Join(root, "gocache"), "GOTOOLCHAIN=local", "HOME="+root, "GOFLAGS=-modcacherw")
		out, err := cmd.CombinedOutput()
		var res struct{ Dir, Error string }
		if i := bytes.IndexByte(out, '{'); i >= 0 {
			json.Unmarshal(out[i:], &res)
		}
		if err != nil || res.Dir == "" {
			return vt.Failf("go-mod-download-failed", "go mod download %s@%s against the proxy failed: %v\n%s", m.Path, m.Version, err, trunc2(out))
		}
		files := stored[m.Path+"@"+m.Version]
		for name, data := range files {
			if strings.HasPrefix(name, ".") {
				continue
			}
			got, err := os.ReadFile(filepath.Join(res.Dir, filepath.FromSlash(name)))
			if err != nil || !bytes.Equal(got, data) {
				return vt.Failf("downloaded-tree-differs", "go mod download %s@%s: file %q is %q (err %v), stored %q", m.Path, m.Version, name, got, err, data)
			}
		}
		e2eDownloads++
	}
	return nil
}

var e2eDownloads int64

func trunc2(b []byte) string {
	if len(b) > 1500 {
		b = b[len(b)-1500:]
	}
	return string(b)
}

// ---- generator ----

type pathSpec struct {
	path     string
	versions []string
}

var pathPool = []pathSpec{
	{"example.com/a", []string{"v1", "v1.0", "vnext", "v1.0.0", "v1.2.3-pre", "v0.0.0-20190101000000-abcdef123456", "v1.2.4-0.20190101000000-abcdef123456", "v1.2.3-pre.0.20190101000000-abcdef123456", "v2.0.0+incompatible", "v2.0.0", "v0.1.0"}},
	{"example.com/Foo/Bar", []string{"v1.0.0", "v1.1.0-RC1", "v0.0.0-20200102030405-0123456789ab"}},
	{"github.com/UPPER/x", []string{"v0.3.0", "v1.0.0"}},
	{"example.com/v", []string{"v1.0.0", "v0.9.0"}},
	{"example.com/vtool/v2", []string{"v2.0.0", "v2.1.0-beta", "v1.0.0", "v2.0.0-20190101000000-abcdef123456"}},
	{"rsc.io/quote/v3", []string{"v3.1.0", "v3.0.0"}},
	{"gopkg.in/yaml.v2", []string{"v2.2.1", "v2.0.0"}},
	{"example.com/a/b/c", []string{"v1.0.0"}},
}

var filePool = []mfile{
	{Name: "x.go", Data: vt.B("package x\n")}, {Name: "sub/y.go", Data: vt.B("package y\n")}, {Name: ".hidden", Data: vt.B("hidden\n")}, {Name: "sub/.keep", Data: vt.B("")}, {Name: ".git/config", Data: vt.B("[core]\n")},
	{Name: "empty", Data: vt.B("")}, {Name: "nonl.txt", Data: vt.B("no final newline")}, {Name: "a/b/c/deep.txt", Data: vt.B("deep\n")}, {Name: "README.md", Data: vt.B("# readme\n")}, {Name: "sub/.dot/inner.txt", Data: vt.B("inner\n")},
}

func genProxy(t *rapid.T) proxyCase {
	var c proxyCase
	np := rapid.IntRange(1, 4).Draw(t, "npaths")
	used := map[string]bool{}
	e2e := rapid.IntRange(0, 19).Draw(t, "e2e") == 0
	for i := 0; i < np; i++ {
		ps := rapid.SampledFrom(pathPool).Draw(t, "path")
		nv := rapid.IntRange(1, 4).Draw(t, "nvers")
		for j := 0; j < nv; j++ {
			v := rapid.SampledFrom(ps.versions).Draw(t, "version")
			if used[ps.path+"@"+v] {
				continue
			}
			used[ps.path+"@"+v] = true
			m := modver{Path: ps.path, Version: v, Form: rapid.SampledFrom([]string{"txt", "txtar", "dir"}).Draw(t, "form")}
			m.Info = vt.B(fmt.Sprintf(`{"Version":%q,"Time":"2019-01-01T00:00:00Z"}`+"\n", v))
			m.Mod = vt.B("module " + ps.path + "\n")
			if !e2e && rapid.IntRange(0, 5).Draw(t, "oddmeta") == 0 {
				m.Info = vt.B(`{"Version":"` + v + `"}`) // no final newline
				m.Mod = vt.B("module " + ps.path + "\n\nrequire example.com/a v1.0.0\n")
			}
			seen := map[string]bool{}
			if e2e {
				m.Files = append(m.Files, mfile{Name: "go.mod", Data: m.Mod})
				seen["go.mod"] = true
			}
			if rapid.IntRange(0, 7).Draw(t, "big") == 0 {
				m.Files = append(m.Files, mfile{Name: "big.dat", Data: vt.B("big\n"), Pad: 1 << 20})
				seen["big.dat"] = true
			}
			for k, nf := 0, rapid.IntRange(0, 6).Draw(t, "nfiles"); k < nf; k++ {
				f := rapid.SampledFrom(filePool).Draw(t, "file")
				if seen[f.Name] || (e2e && strings.Contains(f.Name, ".git/")) {
					continue
				}
				seen[f.Name] = true
				m.Files = append(m.Files, f)
			}
			c.Mods = append(c.Mods, m)
		}
	}
	c.E2E = e2e
	absentPool := []string{"example.com/nosuch/@v/v1.0.0.info", "example.com/nosuch/@v/list", "example.com/a/@v/v9.9.9.info", "example.com/a/@v/v9.9.9.zip", "example.com/a/@v/v1.0.0.foo",
		"example.com/a/@v/v1.0.0.ziphash", "example.com/Foo/Bar/@v/v1.0.0.info", "example.com/a/v1.0.0.info", "example.com/a/@v/v1.0.0", "example.com/a/@v/", "example.com/!foo/!bar/@v/v7.0.0.mod",
		"github.com/!u!p!p!e!r/x/@v/v0.0.1.zip", "example.com/a/@v/!v1.0.0.info", "example.com/a/@latest", "rsc.io/quote/v3/@v/v3.9.9.mod"}
	for i, n := 0, rapid.IntRange(2, 6).Draw(t, "nabsent"); i < n; i++ {
		c.Absent = append(c.Absent, rapid.SampledFrom(absentPool).Draw(t, "absent"))
	}
	c.Order = rapid.SliceOfN(rapid.IntRange(0, 1000), 4, 12).Draw(t, "order")
	c.HashFirst = rapid.Bool().Draw(t, "hashfirst")
	c.Abort = rapid.IntRange(0, 3).Draw(t, "abort") == 2
	if c.Abort {
		// the version's zip must take long enough to build for the hang-up to arrive in the middle of it, with files
		// still to come
		for i := range c.Mods {
			has := map[string]bool{}
			for _, f := range c.Mods[i].Files {
				has[f.Name] = true
			}
			if !has["big.dat"] {
				c.Mods[i].Files = append([]mfile{{Name: "big.dat", Data: vt.B("big\n"), Pad: 1 << 19}}, c.Mods[i].Files...)
			}
			if !has["z_last.txt"] {
				c.Mods[i].Files = append(c.Mods[i].Files, mfile{Name: "z_last.txt", Data: vt.B("last\n")})
			}
		}
	}
	c.Stray = rapid.SliceOfNDistinct(rapid.SampledFrom([]string{"README", "notes.txt", "plain/", "archive.txtar", "example.com_a.txt", ".hidden.txt", "go.mod"}), 0, 3, rapid.ID[string]).Draw(t, "stray")
	return c
}

func metaProxy(c proxyCase) vt.Meta {
	forms := map[string]map[string]bool{}
	escaped, dotfile := false, false
	for _, m := range c.Mods {
		if forms[m.Path] == nil {
			forms[m.Path] = map[string]bool{}
		}
		forms[m.Path][m.Form] = true
		if e, _ := module.EscapePath(m.Path); e != m.Path {
			escaped = true
		}
		for _, f := range m.Files {
			if strings.HasPrefix(f.Name, ".") || strings.Contains(f.Name, "/.") {
				dotfile = true
			}
		}
	}
	multi := false
	for _, f := range forms {
		if len(f) >= 2 {
			multi = true
		}
	}
	var cl []string
	if multi {
		cl = append(cl, "one-module-in-several-forms")
	}
	if escaped {
		cl = append(cl, "escaped-path")
	}
	if dotfile {
		cl = append(cl, "dot-files")
	}
	if c.E2E {
		cl = append(cl, "e2e")
	}
	return vt.Meta{NonTrivial: multi || escaped || dotfile, Classes: cl}
}

func TestProxy(t *testing.T) {
	vt.Run(t, rec, vt.Prop[proxyCase]{Kind: "proxy", Gen: genProxy, Check: checkProxy, Meta: metaProxy, Reduce: func(c proxyCase) []proxyCase {
		var out []proxyCase
		for _, ms := range vt.DropOne(c.Mods) {
			d := c
			d.Mods = ms
			out = append(out, d)
		}
		return out
	}}, vt.N(150, 500))
	rec.Class("proxy:go-mod-downloads", e2eDownloads)
}

var replayers = vt.Replayer{"transient": vt.Decode(checkTransient), "proxy": vt.Decode(checkProxy)}

func TestReplay(t *testing.T) { vt.Replay(t, rec, replayers) }

var _ = time.Now
