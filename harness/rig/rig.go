// Package rig holds the multi-process helpers: re-executing the test binary as
// worker processes, a shared-memory side file for overlap witnesses, a
// machine-wide monotonic clock, and /proc/locks inspection.
package rig

import (
	"bufio"
	"bytes"
	"encoding/json"
	"fmt"
	"os"
	"os/exec"
	"strings"
	"sync/atomic"
	"syscall"
	"time"
	"unsafe"

	"golang.org/x/sys/unix"
)

// MonoNanos returns CLOCK_MONOTONIC in nanoseconds (comparable across processes on one machine).
func MonoNanos() int64 {
	var ts unix.Timespec
	unix.ClockGettime(unix.CLOCK_MONOTONIC, &ts)
	return ts.Nano()
}

// Shared is an mmap'ed array of int32 counters shared between processes.
type Shared struct {
	mem []byte
}

const sharedSize = 4096

// CreateShared creates (zeroed) or opens the side file at path.
func CreateShared(path string, create bool) (*Shared, error) {
	flag := os.O_RDWR
	if create {
		flag |= os.O_CREATE | os.O_TRUNC
	}
	f, err := os.OpenFile(path, flag, 0o666)
	if err != nil {
		return nil, err
	}
	defer f.Close()
	if create {
		if err := f.Truncate(sharedSize); err != nil {
			return nil, err
		}
	}
	mem, err := syscall.Mmap(int(f.Fd()), 0, sharedSize, syscall.PROT_READ|syscall.PROT_WRITE, syscall.MAP_SHARED)
	if err != nil {
		return nil, err
	}
	return &Shared{mem: mem}, nil
}

func (s *Shared) Close() { syscall.Munmap(s.mem) }

// At returns counter i.
func (s *Shared) At(i int) *int32 { return (*int32)(unsafe.Pointer(&s.mem[4*i])) }

func (s *Shared) Add(i int, d int32) int32 { return atomic.AddInt32(s.At(i), d) }
func (s *Shared) Load(i int) int32         { return atomic.LoadInt32(s.At(i)) }

// Worker describes one worker process to start.
type Worker struct {
	Role string
	Env  []string
}

// RunWorkers starts the current test binary once per worker with VERIF_ROLE set and
// returns each worker's stdout lines that start with '{' (JSON reports) and its exit error.
func RunWorkers(ws []Worker, timeout time.Duration) (reports [][]string, errs []error, outputs []string) {
	cmds := make([]*exec.Cmd, len(ws))
	bufs := make([]*bytes.Buffer, len(ws))
	for i, w := range ws {
		cmd := exec.Command(os.Args[0], "-test.run=^$")
		cmd.Env = append(os.Environ(), "VERIF_ROLE="+w.Role, "VERIF_OUT=")
		cmd.Env = append(cmd.Env, w.Env...)
		bufs[i] = &bytes.Buffer{}
		cmd.Stdout = bufs[i]
		cmd.Stderr = bufs[i]
		cmds[i] = cmd
	}
	errs = make([]error, len(ws))
	for i, cmd := range cmds {
		if err := cmd.Start(); err != nil {
			errs[i] = err
		}
	}
	done := make(chan int, len(ws))
	for i, cmd := range cmds {
		i, cmd := i, cmd
		go func() {
			if errs[i] == nil {
				errs[i] = cmd.Wait()
			}
			done <- i
		}()
	}
	deadline := time.After(timeout)
	for n := 0; n < len(ws); n++ {
		select {
		case <-done:
		case <-deadline:
			for _, cmd := range cmds {
				if cmd.Process != nil {
					cmd.Process.Kill()
				}
			}
			for ; n < len(ws); n++ {
				<-done
			}
			for i := range errs {
				if errs[i] == nil {
					errs[i] = fmt.Errorf("worker timeout")
				}
			}
		}
	}
	reports = make([][]string, len(ws))
	for i, b := range bufs {
		outputs = append(outputs, b.String())
		sc := bufio.NewScanner(bytes.NewReader(b.Bytes()))
		sc.Buffer(make([]byte, 1<<22), 1<<22)
		for sc.Scan() {
			if strings.HasPrefix(sc.Text(), "{") {
				reports[i] = append(reports[i], sc.Text())
			}
		}
	}
	return
}

// Emit prints v as one JSON line on stdout (worker side).
func Emit(v any) {
	b, _ := json.Marshal(v)
	fmt.Println(string(b))
}

// BlockedFlockWaiters returns the number of blocked flock waiters listed in /proc/locks ("->" lines).
func BlockedFlockWaiters() int {
	b, err := os.ReadFile("/proc/locks")
	if err != nil {
		return -1
	}
	n := 0
	for _, l := range strings.Split(string(b), "\n") {
		if strings.Contains(l, "->") && strings.Contains(l, "FLOCK") {
			n++
		}
	}
	return n
}

// WaitBlocked waits until /proc/locks shows at least n blocked flock waiters for inode ino (0: any), or the timeout passes.
func WaitBlocked(n int, timeout time.Duration) bool {
	end := time.Now().Add(timeout)
	for time.Now().Before(end) {
		if BlockedFlockWaiters() >= n {
			return true
		}
		time.Sleep(200 * time.Microsecond)
	}
	return false
}
