package c15

import (
	"bytes"
	"crypto/sha256"
	"fmt"
	"os"
	"os/exec"
	"path/filepath"
	"sort"
	"strings"
	"sync/atomic"
	"testing"
	"unicode/utf8"

	"github.com/rogpeppe/go-internal/txtar"
	"pgregory.net/rapid"

	"verif/cachekit"
	"verif/txtarref"
	"verif/vt"
)

var rec = vt.New("C15")

func TestMain(m *testing.M) { vt.Main(m, rec) }

var seq int64

func scratch(prefix string) string {
	d := filepath.Join(cachekit.Scratch(), fmt.Sprintf("%s-%d-%d", prefix, os.Getpid(), atomic.AddInt64(&seq, 1)))
	os.RemoveAll(d)
	os.MkdirAll(d, 0o777)
	return d
}

type snapEntry struct {
	dir  bool
	sum  [32]byte
	size int64
}

func snap(root string) map[string]snapEntry {
	m := map[string]snapEntry{}
	filepath.Walk(root, func(p string, info os.FileInfo, err error) error {
		if err != nil || p == root {
			return nil
		}
		rel, _ := filepath.Rel(root, p)
		if info.IsDir() {
			m[rel] = snapEntry{dir: true}
			return nil
		}
		if info.Mode()&os.ModeSymlink != 0 {
			// a link is what it says, not what it currently leads to
			to, _ := os.Readlink(p)
			m[rel] = snapEntry{sum: sha256.Sum256([]byte("symlink -> " + to)), size: int64(len(to))}
			return nil
		}
		b, _ := os.ReadFile(p)
		m[rel] = snapEntry{sum: sha256.Sum256(b), size: int64(len(b))}
		return nil
	})
	return m
}

// ---------- (1) Write containment ----------

type wfile struct {
	Name string `json:"name"`
	Data vt.B   `json:"data"`
}
type writeCase struct {
	Pre   []wfile  `json:"pre"`   // pre-existing files inside target (relative, clean)
	PreD  []string `json:"pred"`  // pre-existing directories inside target
	Files []wfile  `json:"files"` // archive entries
	// Via: "" = txtar.Write, "cmd-file" / "cmd-stdin" = the txtar-x command on the formatted archive
	// (the entries are then whatever Parse makes of the formatted text).
	Via string `json:"via,omitempty"`
	// PreL: pre-existing symbolic links inside target (name -> link text): to a file that does not exist outside the
	// target, to an existing file outside it, or to nothing inside it. An entry of that name must not be written through
	// the link. (Links to *directories* are not generated: the statement's quantifier speaks of pre-existing files, and
	// the unchanged Write - whose containment test is lexical - does follow a pre-existing directory link; see DESIGN.)
	PreL []wfile `json:"prel,omitempty"`
}

func escapes(name string) bool {
	fp := filepath.Clean(filepath.FromSlash(name))
	return filepath.IsAbs(fp) || fp == ".." || strings.HasPrefix(fp, "../")
}

func safeRel(n string) bool {
	c := filepath.Clean(n)
	return n != "" && c == n && !filepath.IsAbs(c) && c != "." && c != ".." && !strings.HasPrefix(c, "../") && !strings.ContainsRune(n, 0)
}

func checkWrite(c writeCase) *vt.Fail {
	sbx := scratch("c15w")
	defer os.RemoveAll(sbx)
	target := filepath.Join(sbx, "target")
	os.MkdirAll(target, 0o777)
	os.WriteFile(filepath.Join(sbx, "sibling.txt"), []byte("sibling"), 0o666)
	os.MkdirAll(filepath.Join(sbx, "a"), 0o777)
	os.WriteFile(filepath.Join(sbx, "a", "b"), []byte("outside a/b"), 0o666)
	os.WriteFile(filepath.Join(sbx, "targetx"), []byte("outside targetx"), 0o666)
	for _, d := range c.PreD {
		if safeRel(d) {
			os.MkdirAll(filepath.Join(target, d), 0o777)
		}
	}
	for _, f := range c.Pre {
		if safeRel(f.Name) {
			os.MkdirAll(filepath.Dir(filepath.Join(target, f.Name)), 0o777)
			os.WriteFile(filepath.Join(target, f.Name), f.Data, 0o666)
		}
	}
	var links []string
	for _, l := range c.PreL {
		to := string(l.Data)
		if st, err := os.Stat(filepath.Join(filepath.Dir(filepath.Join(target, l.Name)), to)); err == nil && st.IsDir() {
			continue // never a link to a directory
		}
		if safeRel(l.Name) && to != "" && !strings.ContainsAny(to, "\x00\n") && len(to) < 100 {
			os.MkdirAll(filepath.Dir(filepath.Join(target, l.Name)), 0o777)
			if os.Symlink(to, filepath.Join(target, l.Name)) == nil {
				links = append(links, filepath.Join(target, l.Name))
			}
		}
	}
	a := &txtar.Archive{}
	for _, f := range c.Files {
		a.Files = append(a.Files, txtar.File{Name: f.Name, Data: []byte(f.Data)})
	}
	who := "Write"
	archFile := filepath.Join(cachekit.Scratch(), fmt.Sprintf("c15arch-%d-%d.txt", os.Getpid(), atomic.AddInt64(&seq, 1)))
	if c.Via != "" {
		if _, err := os.Stat(bin("txtar-x")); err != nil {
			return nil
		}
		who = "txtar-x"
		text := txtar.Format(a)
		a = txtar.Parse(text)
		c.Files = nil
		for _, f := range a.Files {
			c.Files = append(c.Files, wfile{Name: f.Name, Data: vt.B(f.Data)})
		}
		os.WriteFile(archFile, text, 0o666)
		defer os.Remove(archFile)
	}
	before := snap(sbx)
	anyEscape := false
	for _, f := range c.Files {
		if escapes(f.Name) {
			anyEscape = true
		}
	}
	var werr error
	switch c.Via {
	case "":
		if f := vt.Guard("write-panic", func() *vt.Fail { werr = txtar.Write(a, target); return nil }); f != nil {
			return f
		}
	case "cmd-file", "cmd-stdin":
		cmd := exec.Command(bin("txtar-x"), "-C", target, archFile)
		if c.Via == "cmd-stdin" {
			cmd = exec.Command(bin("txtar-x"), "-C", target)
			in, err := os.Open(archFile)
			if err != nil {
				return nil
			}
			defer in.Close()
			cmd.Stdin = in
		}
		cmd.Dir = sbx
		out, err := cmd.CombinedOutput()
		if err != nil {
			werr = fmt.Errorf("%v: %s", err, out)
			if ee, ok := err.(*exec.ExitError); !ok || ee.ExitCode() != 1 {
				return vt.Failf("txtar-x-failed", "txtar-x ended abnormally (%v): %s", err, out)
			}
		}
	default:
		return nil
	}
	after := snap(sbx)
	for _, l := range links {
		if st, err := os.Stat(l); err == nil && st.IsDir() {
			// a link that led nowhere at the start leads to a directory now - one that an entry of the archive created
			// inside the target: entries below the link's name were written through it. Links to directories are outside
			// what is judged here (see PreL), also when they only become such on the way.
			rec.Class("write:link-became-a-directory-skipped", 1)
			return nil
		}
	}
	// also look one level above the sandbox for stray files named like entries
	for k, v := range before {
		w, ok := after[k]
		if !ok {
			return vt.Failf("preexisting-removed", "%s removed pre-existing %q (err=%v)", who, k, werr)
		}
		if !v.dir && (w.dir || w.sum != v.sum) {
			return vt.Failf("preexisting-overwritten", "%s changed the pre-existing file %q (err=%v)", who, k, werr)
		}
	}
	for k := range after {
		if _, ok := before[k]; ok {
			continue
		}
		if k != "target" && !strings.HasPrefix(k, "target/") {
			return vt.Failf("wrote-outside-dir", "%s created %q outside the target directory (err=%v)", who, k, werr)
		}
	}
	if ents, _ := os.ReadDir(filepath.Dir(sbx)); true {
		for _, e := range ents {
			for _, f := range c.Files {
				if b := filepath.Base(filepath.Clean(f.Name)); b == e.Name() && b != filepath.Base(sbx) && !strings.HasPrefix(e.Name(), "c15") && !strings.HasPrefix(e.Name(), "out") && !strings.HasPrefix(e.Name(), "log") && !strings.HasPrefix(e.Name(), "s") {
					return vt.Failf("wrote-outside-dir", "Write created %q in the directory above the sandbox", e.Name())
				}
			}
		}
	}
	if anyEscape && werr == nil {
		return vt.Failf("escape-not-reported", "an entry name is absolute or climbs out through '..' but %s reported no error", who)
	}
	if werr == nil {
		want := map[string][]byte{}
		for _, f := range c.Files {
			rel := filepath.Join("target", filepath.Clean(filepath.FromSlash(f.Name)))
			want[rel] = f.Data
		}
		for rel, data := range want {
			got, err := os.ReadFile(filepath.Join(sbx, rel))
			if err != nil || !bytes.Equal(got, data) {
				return vt.Failf("file-content-wrong", "%s reported success but %q holds %q (err %v), want %q", who, rel, got, err, data)
			}
		}
		for k, v := range after {
			if _, ok := before[k]; ok || v.dir {
				continue
			}
			if _, ok := want[k]; !ok {
				return vt.Failf("extra-file-created", "%s reported success and created %q which is no entry of the archive", who, k)
			}
		}
	}
	return nil
}

var segPool = []string{"a", "b", ".", "..", "", "c d", `x\y`, "target", "targetx", "sibling.txt", "..a", "a..", "...", "\x00", "A", "B", "Target"}

func genName(t *rapid.T) string {
	n := rapid.IntRange(1, 4).Draw(t, "nseg")
	var segs []string
	for i := 0; i < n; i++ {
		segs = append(segs, rapid.SampledFrom(segPool).Draw(t, "seg"))
	}
	name := strings.Join(segs, "/")
	switch rapid.IntRange(0, 9).Draw(t, "shape") {
	case 0:
		name = "/" + name
	case 1:
		name += "/"
	}
	return name
}

func genWrite(t *rapid.T) writeCase {
	var c writeCase
	for i, n := 0, rapid.IntRange(0, 3).Draw(t, "npre"); i < n; i++ {
		c.Pre = append(c.Pre, wfile{Name: rapid.SampledFrom([]string{"a", "b", "a/b", "c d", "b/a/b", `x\y`}).Draw(t, "prename"), Data: vt.B("pre-existing")})
	}
	for i, n := 0, rapid.IntRange(0, 2).Draw(t, "npred"); i < n; i++ {
		c.PreD = append(c.PreD, rapid.SampledFrom([]string{"a", "b", "b/a", "c d"}).Draw(t, "predname"))
	}
	for i, n := 0, rapid.IntRange(0, 3).Draw(t, "nprel")-1; i < n; i++ {
		c.PreL = append(c.PreL, wfile{Name: rapid.SampledFrom([]string{"a", "b", "target", "c d", "A", "a/b"}).Draw(t, "lname"),
			Data: vt.B(rapid.SampledFrom([]string{"../escaped-victim", "../sibling.txt", "missing-inside", "../targetx", "../../c15-victim-above"}).Draw(t, "lto"))})
	}
	c.Via = rapid.SampledFrom([]string{"", "", "", "", "", "", "", "", "cmd-file", "cmd-stdin"}).Draw(t, "via")
	for i, n := 0, rapid.IntRange(1, 5).Draw(t, "nfiles"); i < n; i++ {
		c.Files = append(c.Files, wfile{Name: genName(t), Data: vt.B(rapid.SampledFrom([]string{"", "x\n", "data", "-- y --\n"}).Draw(t, "data") + fmt.Sprint(i))})
	}
	return c
}

func metaWrite(c writeCase) vt.Meta {
	esc, coll := false, false
	pre := map[string]bool{}
	for _, f := range c.Pre {
		pre[f.Name] = true
	}
	for _, d := range c.PreD {
		pre[d] = true
	}
	seen := map[string]bool{}
	for _, f := range c.Files {
		if escapes(f.Name) {
			esc = true
		}
		cl := filepath.Clean(f.Name)
		if pre[cl] || seen[cl] {
			coll = true
		}
		seen[cl] = true
	}
	var cls []string
	if esc {
		cls = append(cls, "escaping")
	}
	if coll {
		cls = append(cls, "colliding")
	}
	if !esc && !coll {
		cls = append(cls, "plain")
	}
	if c.Via != "" {
		cls = append(cls, "through-txtar-x")
	}
	return vt.Meta{NonTrivial: esc || coll, Classes: cls}
}

func TestWrite(t *testing.T) {
	vt.Run(t, rec, vt.Prop[writeCase]{Kind: "write", Gen: genWrite, Check: checkWrite, Meta: metaWrite}, vt.N(3000, 60000))
}

// ---------- (2) txtar-c | txtar-x round trip ----------

type tfile struct {
	Path string `json:"path"`
	Data vt.B   `json:"data"`
	Link string `json:"link,omitempty"` // symlink target (not a regular file: must be skipped)
}
type rtCase struct {
	Files []tfile  `json:"files"`
	Dirs  []string `json:"dirs"` // extra (possibly empty) directories
	Flags []string `json:"flags"`
	Stdin bool     `json:"stdin"`
	// FdLimit > 0: txtar-x runs with that many file descriptors at most (ulimit -n): a tree of more files than that
	// extracts all the same, one file after the other
	FdLimit int `json:"fd_limit,omitempty"`
}

func bin(name string) string {
	if b := os.Getenv("VERIF_BUILD"); b != "" {
		return filepath.Join(b, name)
	}
	return filepath.Join("/verif/.build", name)
}

func hasDotComponent(p string) bool {
	for _, s := range strings.Split(p, "/") {
		if strings.HasPrefix(s, ".") {
			return true
		}
	}
	return false
}

func validTreePath(p string) bool {
	if !safeRel(p) {
		return false
	}
	for _, s := range strings.Split(p, "/") {
		if s == "" || strings.TrimSpace(s) != s || strings.ContainsAny(s, "\n\r") || !utf8.ValidString(s) {
			return false
		}
	}
	return strings.TrimSpace(p) == p
}

func checkRT(c rtCase) *vt.Fail {
	root := scratch("c15r")
	defer os.RemoveAll(root)
	src := filepath.Join(root, "src")
	dst := filepath.Join(root, "dst")
	os.MkdirAll(src, 0o777)
	os.MkdirAll(dst, 0o777)
	all, quote := false, false
	for _, f := range c.Flags {
		switch f {
		case "-a":
			all = true
		case "-quote":
			quote = true
		default:
			return nil
		}
	}
	want := map[string][]byte{} // extracted path -> content
	wantUnq := map[string][]byte{}
	taken := map[string]bool{}
	for _, d := range c.Dirs {
		if validTreePath(d) && !taken[d] {
			if os.MkdirAll(filepath.Join(src, d), 0o777) == nil {
				for p := d; p != "."; p = filepath.Dir(p) {
					taken[p] = true
				}
			}
		}
	}
	for _, f := range c.Files {
		if !validTreePath(f.Path) || taken[f.Path] {
			continue
		}
		// a parent must not be a file
		ok := true
		for p := filepath.Dir(f.Path); p != "."; p = filepath.Dir(p) {
			if st, err := os.Lstat(filepath.Join(src, p)); err == nil && !st.IsDir() {
				ok = false
			}
		}
		if !ok {
			continue
		}
		full := filepath.Join(src, f.Path)
		if os.MkdirAll(filepath.Dir(full), 0o777) != nil {
			continue
		}
		for p := f.Path; p != "."; p = filepath.Dir(p) {
			taken[p] = true
		}
		if f.Link != "" {
			os.Symlink(f.Link, full)
			continue
		}
		if os.WriteFile(full, f.Data, 0o666) != nil {
			continue
		}
		// documented rules
		if hasDotComponent(f.Path) && !all {
			continue
		}
		data := []byte(f.Data)
		if !utf8.Valid(data) {
			continue
		}
		if len(data) > 0 && data[len(data)-1] != '\n' {
			data = append(append([]byte(nil), data...), '\n')
		}
		if txtarref.HasMarkerLine(data) {
			if !quote {
				continue
			}
			wantUnq[f.Path] = data
			continue
		}
		want[f.Path] = data
	}
	arch := filepath.Join(root, "saved.txtar")
	var stderr bytes.Buffer
	cmd := exec.Command(bin("txtar-c"), append(append([]string{}, c.Flags...), src)...)
	cmd.Stderr = &stderr
	out, err := cmd.Output()
	if err != nil {
		return vt.Failf("txtar-c-failed", "txtar-c %v: %v\n%s", c.Flags, err, stderr.String())
	}
	os.WriteFile(arch, out, 0o666)
	var x *exec.Cmd
	xargs := []string{"-C", dst}
	if !c.Stdin {
		xargs = append(xargs, arch)
	}
	if c.FdLimit >= 24 && c.FdLimit <= 4096 {
		x = exec.Command("sh", append([]string{"-c", fmt.Sprintf(`ulimit -n %d; exec "$0" "$@"`, c.FdLimit), bin("txtar-x")}, xargs...)...)
	} else {
		x = exec.Command(bin("txtar-x"), xargs...)
	}
	if c.Stdin {
		x.Stdin = bytes.NewReader(out)
	}
	if xo, err := x.CombinedOutput(); err != nil {
		return vt.Failf("txtar-x-failed", "txtar-x failed on the archive written by txtar-c %v: %v\n%s\narchive:\n%s", c.Flags, err, xo, out)
	}
	got := map[string][]byte{}
	filepath.Walk(dst, func(p string, info os.FileInfo, err error) error {
		if err == nil && !info.IsDir() {
			rel, _ := filepath.Rel(dst, p)
			b, _ := os.ReadFile(p)
			got[rel] = b
		}
		return nil
	})
	for p, data := range want {
		g, ok := got[p]
		if !ok {
			return vt.Failf("file-not-reproduced", "file %q (content %q) should be archived by txtar-c %v but is missing after txtar-x; archive:\n%s", p, data, c.Flags, out)
		}
		if !bytes.Equal(g, data) {
			return vt.Failf("content-not-reproduced", "file %q: extracted %q, want %q (flags %v)", p, g, data, c.Flags)
		}
	}
	comment := string(txtar.Parse(out).Comment)
	for p, data := range wantUnq {
		g, ok := got[p]
		if !ok {
			return vt.Failf("file-not-reproduced", "file %q (content %q, needs quoting) should be archived with -quote but is missing; archive:\n%s", p, data, out)
		}
		u, uerr := txtar.Unquote(g)
		if uerr != nil || !bytes.Equal(u, data) {
			return vt.Failf("quoted-content-not-reproduced", "file %q: Unquote(extracted %q) = %q, %v; want %q", p, g, u, uerr, data)
		}
		mentioned := false
		for _, l := range strings.Split(comment, "\n") {
			if strings.HasPrefix(strings.TrimSpace(l), "unquote") && strings.Contains(l, p) {
				mentioned = true
			}
		}
		if !mentioned {
			return vt.Failf("unquote-line-missing", "file %q was quoted but the archive comment %q has no 'unquote %s' line", p, comment, p)
		}
	}
	for p := range got {
		_, a := want[p]
		_, b := wantUnq[p]
		if !a && !b {
			return vt.Failf("unexpected-file", "txtar-x produced %q which the documented rules say is not archived (flags %v); archive:\n%s", p, c.Flags, out)
		}
	}
	return nil
}

var dirNames = []string{"a", "b", "sub dir", ".hidden", "a/b", "a/.git", "x.d", "a/b/c", "A", "a/B"}
var fileNames = []string{"f.txt", "g", ".dot", "with space.txt", "é.txt", "-- x --", "z.go", "a -- b", "README", "readme", "F.TXT", "G", "É.txt", "Makefile", "makefile"}
var bodies = []string{"", "hello\n", "no newline", "-- x --\n", "a\n-- x --", "a\n-- x --\nb\n", ">quoted\n", "\xff\xfe\n", "x\r\n", "-- --\n", "--  --\n", "é\n", "line1\nline2\n", "-- a -- b --\r\n"}

func genRT(t *rapid.T) rtCase {
	var c rtCase
	n := rapid.IntRange(0, 8).Draw(t, "nfiles")
	for i := 0; i < n; i++ {
		p := rapid.SampledFrom(fileNames).Draw(t, "fname")
		if rapid.IntRange(0, 2).Draw(t, "nested") != 0 {
			p = rapid.SampledFrom(dirNames).Draw(t, "dname") + "/" + p
		}
		f := tfile{Path: p, Data: vt.B(rapid.SampledFrom(bodies).Draw(t, "body"))}
		if rapid.IntRange(0, 7).Draw(t, "big") == 3 {
			// a file larger than the blocks a reader might sniff or copy in, with multi-byte characters lying across
			// the block boundaries (0-3 ASCII bytes in front shift them byte by byte)
			unit := rapid.SampledFrom([]string{"\u00e9", "\u20ac", "\u65e5\u672c", "x", "ab\n", "\U0001F600"}).Draw(t, "unit")
			size := rapid.SampledFrom([]int{4094, 4096, 4099, 8192, 8195, 32768, 32771, 65536, 65539}).Draw(t, "bigsize")
			b := []byte(strings.Repeat("a", rapid.IntRange(0, 3).Draw(t, "shift")))
			for len(b) < size {
				b = append(b, unit...)
			}
			f.Data = append(b, '\n')
		}
		if rapid.IntRange(0, 19).Draw(t, "symlink") == 0 {
			f.Link = "f.txt"
		}
		c.Files = append(c.Files, f)
	}
	if rapid.IntRange(0, 3).Draw(t, "emptydir") == 0 {
		c.Dirs = append(c.Dirs, rapid.SampledFrom(dirNames).Draw(t, "edir"))
	}
	if rapid.IntRange(0, 9).Draw(t, "many") == 6 {
		// more files than the extracting process may have open at once
		nm := rapid.IntRange(40, 90).Draw(t, "nmany")
		for i := 0; i < nm; i++ {
			c.Files = append(c.Files, tfile{Path: fmt.Sprintf("many/f%03d.txt", i), Data: vt.B(fmt.Sprintf("file %d\n", i))})
		}
		c.FdLimit = 32
	}
	c.Flags = rapid.SampledFrom([][]string{{}, {"-quote"}, {"-a"}, {"-a", "-quote"}, {}}).Draw(t, "flags")
	c.Stdin = rapid.Bool().Draw(t, "stdin")
	return c
}

func metaRT(c rtCase) vt.Meta {
	nested, special := false, false
	var cl []string
	for _, f := range c.Files {
		if strings.Contains(f.Path, "/") {
			nested = true
		}
		d := []byte(f.Data)
		switch {
		case hasDotComponent(f.Path):
			special = true
			cl = append(cl, "dot")
		case !utf8.Valid(d):
			special = true
			cl = append(cl, "invalid-utf8")
		case len(d) > 0 && d[len(d)-1] != '\n':
			special = true
			cl = append(cl, "newline-fixed")
		}
		if txtarref.HasMarkerLine(append(append([]byte(nil), d...), '\n')) {
			special = true
			cl = append(cl, "marker")
		}
	}
	sort.Strings(cl)
	var u []string
	for i, s := range cl {
		if i == 0 || cl[i-1] != s {
			u = append(u, s)
		}
	}
	u = append(u, "flags="+strings.Join(c.Flags, ","))
	return vt.Meta{NonTrivial: nested && special, Classes: u}
}

func TestRoundTrip(t *testing.T) {
	if _, err := os.Stat(bin("txtar-c")); err != nil {
		rec.Infra("txtar-c binary not built: %v", err)
		t.Skip("no binaries")
	}
	vt.Run(t, rec, vt.Prop[rtCase]{Kind: "roundtrip", Gen: genRT, Check: checkRT, Meta: metaRT, Reduce: func(c rtCase) []rtCase {
		var out []rtCase
		for _, fs := range vt.DropOne(c.Files) {
			d := c
			d.Files = fs
			out = append(out, d)
		}
		return out
	}}, vt.N(250, 3000))
}

var hostileWrite = []writeCase{
	{Files: []wfile{{"..", vt.B("x")}}}, {Files: []wfile{{"../sibling.txt", vt.B("x")}}}, {Files: []wfile{{"a/../../targetx", vt.B("x")}}},
	{Files: []wfile{{"/etc/verif-c15", vt.B("x")}}}, {Files: []wfile{{"", vt.B("x")}}}, {Files: []wfile{{".", vt.B("x")}}},
	{Pre: []wfile{{"a", vt.B("old")}}, Files: []wfile{{"a", vt.B("new")}}}, {Files: []wfile{{"a", vt.B("1")}, {"./a", vt.B("2")}}},
	{Files: []wfile{{"..a", vt.B("ok")}, {"a..", vt.B("ok2")}, {".../x", vt.B("ok3")}}},
}

func TestHostile(t *testing.T) {
	for _, c := range hostileWrite {
		rec.Eval(1)
		vt.CheckOne(rec, "write", c, checkWrite)
	}
}

var replayers = vt.Replayer{"write": vt.Decode(checkWrite), "roundtrip": vt.Decode(checkRT)}

func TestReplay(t *testing.T) { vt.Replay(t, rec, replayers) }
