package c02

import (
	"bytes"
	"fmt"
	"regexp"
	"sort"
	"strings"
	"testing"
	"time"
	"unicode/utf8"

	"github.com/rogpeppe/go-internal/testscript"
	"pgregory.net/rapid"

	"verif/tskit"
	"verif/tsmodel"
	"verif/vt"
)

var rec = vt.New("C02")

func TestMain(m *testing.M) {
	testscript.Main(tskit.MainWrapper{M: m, After: rec.Flush}, tskit.Commands())
}

// ---------- (a) constructive: any word survives ----------

type piece struct {
	Kind  string `json:"kind"`            // lit | var | brace | regexp | dollar
	Text  vt.B   `json:"text,omitempty"`  // literal bytes, or the variable name
	Quote string `json:"quote,omitempty"` // lit only: bare | full | split
	Cut   int    `json:"cut,omitempty"`   // split position for "split"
	// Rep > 1: the literal is Text repeated Rep times (words and lines beyond 64 KiB without huge replay files)
	Rep int `json:"rep,omitempty"`
}

type word []piece

type stepA struct {
	Kind    string   `json:"kind"` // env | setenv | probe | getenv | printenv | dumpenv
	Name    string   `json:"name,omitempty"`
	Value   vt.B     `json:"value,omitempty"`
	Words   []word   `json:"words,omitempty"`
	Comment string   `json:"comment,omitempty"` // trailing "#..." text, "" = none; "-" = no blank before '#'
	Names   []string `json:"names,omitempty"`
}

type caseA struct {
	Setup []string `json:"setup"` // NAME=value entries appended to Env.Vars by Setup (duplicates allowed)
	Steps []stepA  `json:"steps"`
}

func isIdent(s string) bool {
	if s == "" {
		return false
	}
	for i := 0; i < len(s); i++ {
		c := s[i]
		if !(c == '_' || c >= 'a' && c <= 'z' || c >= 'A' && c <= 'Z' || c >= '0' && c <= '9') {
			return false
		}
	}
	return true
}

func identByte(c byte) bool {
	return c == '_' || c >= 'a' && c <= 'z' || c >= 'A' && c <= 'Z' || c >= '0' && c <= '9'
}

func needsQuote(b []byte) bool {
	for _, c := range b {
		if c == ' ' || c == '\t' || c == '\'' || c == '#' || c == '$' || c == '\r' {
			return true
		}
	}
	return len(b) == 0
}

func quoteLit(b []byte) string { return "'" + strings.ReplaceAll(string(b), "'", "''") + "'" }

// renderWord returns the script text of a word, or ok=false if the structure cannot be rendered faithfully
// (two quoted chunks may not touch: 'a”b' means a'b; $NAME may not be followed by an identifier byte).
func renderWord(w word) (string, bool) {
	type chunk struct {
		text   string // rendered text
		raw    []byte // literal content (quoted chunks)
		quoted bool
		isVar  bool
		name   string
	}
	var cs []chunk
	for _, p := range w {
		switch p.Kind {
		case "lit":
			b := []byte(p.Text)
			if strings.ContainsAny(string(b), "\n") {
				return "", false
			}
			switch {
			case p.Quote == "bare" && !needsQuote(b):
				cs = append(cs, chunk{text: string(b)})
			case p.Quote == "split" && len(b) >= 2 && !needsQuote(b[1+p.Cut%(len(b)-1):]):
				cut := 1 + p.Cut%(len(b)-1)
				cs = append(cs, chunk{raw: b[:cut], quoted: true}, chunk{text: string(b[cut:])})
			default:
				cs = append(cs, chunk{raw: b, quoted: true})
			}
		case "var":
			if !isIdent(string(p.Text)) {
				return "", false
			}
			cs = append(cs, chunk{text: "$" + string(p.Text), isVar: true, name: string(p.Text)})
		case "digitvar":
			// $ followed by a digit names the one-character variable (os.Expand's rule for the shell's positional
			// parameters); identifier bytes after it are literal text: $1x is the value of 1 followed by x
			n := string(p.Text)
			if len(n) < 2 || n[0] < '0' || n[0] > '9' || !isIdent(n) {
				return "", false
			}
			cs = append(cs, chunk{text: "$" + n})
		case "brace":
			if !validName(string(p.Text)) {
				return "", false
			}
			cs = append(cs, chunk{text: "${" + string(p.Text) + "}"})
		case "regexp":
			if !validName(string(p.Text)) {
				return "", false
			}
			cs = append(cs, chunk{text: "${" + string(p.Text) + "@R}"})
		case "dollar":
			cs = append(cs, chunk{text: "$$"})
		default:
			return "", false
		}
	}
	if len(cs) == 0 {
		return "''", true
	}
	// repairs that keep the meaning: merge touching quoted chunks ('a''b' would mean a'b);
	// write $NAME as ${NAME} when an identifier byte follows
	var out []chunk
	for _, c := range cs {
		if n := len(out); n > 0 && out[n-1].quoted && c.quoted {
			out[n-1].raw = append(append([]byte{}, out[n-1].raw...), c.raw...)
			continue
		}
		out = append(out, c)
	}
	var sb strings.Builder
	for i, c := range out {
		switch {
		case c.quoted:
			sb.WriteString(quoteLit(c.raw))
		case c.isVar && i+1 < len(out) && !out[i+1].quoted && out[i+1].text != "" && identByte(out[i+1].text[0]):
			sb.WriteString("${" + c.name + "}")
		default:
			sb.WriteString(c.text)
		}
	}
	return sb.String(), true
}

func validName(n string) bool {
	return n != "" && !strings.ContainsAny(n, "=\n\x00}@$' \t#\r") && n != "WORK" && n != "PATH"
}

type envModel struct {
	vals map[string]string
}

var ranA, skippedA int64

func checkA(c caseA) *vt.Fail {
	skippedA++
	f := checkA1(expandReps(c))
	return f
}

// expandReps replaces repeated literals by their full text.
func expandReps(c caseA) caseA {
	out := caseA{Setup: c.Setup}
	for _, st := range c.Steps {
		st2 := st
		st2.Words = nil
		for _, w := range st.Words {
			var w2 word
			for _, p := range w {
				if p.Kind == "lit" && p.Rep > 1 && p.Rep <= 200000 && len(p.Text)*p.Rep <= 300000 {
					p.Text = vt.B(bytes.Repeat(p.Text, p.Rep))
					p.Rep = 0
				}
				w2 = append(w2, p)
			}
			st2.Words = append(st2.Words, w2)
		}
		out.Steps = append(out.Steps, st2)
	}
	return out
}

func checkA1(c caseA) *vt.Fail {
	// build the script and the expectations from the structure
	env := map[string]string{}
	var setup []string
	for _, kv := range c.Setup {
		i := strings.Index(kv, "=")
		if i <= 0 || !validName(kv[:i]) || strings.ContainsAny(kv, "\n\x00") {
			return nil
		}
		setup = append(setup, kv)
	}
	type expProbe struct {
		argv []string
		res  []string // for regexp pieces: value each compiled pattern must match exactly
	}
	var lines []string
	var wantProbes [][]string
	type rcheck struct {
		probe, arg int
		value      string
	}
	var rchecks []rcheck
	var wantEnvs []tskit.EnvRec
	var wantStd []string
	var dumps []map[string]string
	// the script's environment after setup: defaults are handled by the model helper below
	h := tsmodel.Host{WorkAbs: "/WORKDIR", Path: "/bin", SetupEnv: setup}
	base := tsmodel.New(tsmodel.Params{}, h, nil)
	get := func(k string) string {
		if v, ok := env[k]; ok {
			return v
		}
		if k == "WORK" || k == "PATH" || k == "TMPDIR" {
			return "\x00host-dependent"
		}
		return base.Getenv(k)
	}
	for _, st := range c.Steps {
		switch st.Kind {
		case "env":
			if !validName(st.Name) || strings.ContainsAny(string(st.Value), "\n\x00") {
				return nil
			}
			lines = append(lines, "env "+quoteLit([]byte(st.Name+"="+string(st.Value))))
			env[st.Name] = string(st.Value)
		case "setenv":
			if !validName(st.Name) || strings.ContainsAny(string(st.Value), "\n\x00") {
				return nil
			}
			lines = append(lines, "setenv "+quoteLit([]byte(st.Name))+" "+quoteLit(st.Value))
			env[st.Name] = string(st.Value)
		case "probe":
			var argv []string
			var texts []string
			for wi, w := range st.Words {
				txt, ok := renderWord(w)
				if !ok {
					return nil
				}
				texts = append(texts, txt)
				var val strings.Builder
				for _, p := range w {
					switch p.Kind {
					case "lit":
						val.Write(p.Text)
					case "var", "brace":
						v := get(string(p.Text))
						if strings.HasPrefix(v, "\x00") {
							return nil
						}
						val.WriteString(v)
					case "digitvar":
						v := get(string(p.Text[:1]))
						if strings.HasPrefix(v, "\x00") {
							return nil
						}
						val.WriteString(v)
						val.Write(p.Text[1:])
					case "regexp":
						v := get(string(p.Text))
						if strings.HasPrefix(v, "\x00") || len(w) != 1 {
							return nil // regexp pieces are checked as whole words
						}
						if !utf8.ValidString(v) {
							return nil // Go regular expressions cannot express invalid UTF-8: outside the statement
						}
						rchecks = append(rchecks, rcheck{len(wantProbes), wi, v})
						val.WriteString("\x00regexp")
					case "dollar":
						val.WriteString("$")
					}
				}
				argv = append(argv, val.String())
			}
			line := "probe"
			if len(texts) > 0 {
				line += " " + strings.Join(texts, rapidSep(len(lines)))
			}
			switch {
			case st.Comment == "":
			case strings.HasPrefix(st.Comment, "-"):
				// '#' directly after the last word ends the line too - but only after a quote or a word end
				line += "#" + strings.ReplaceAll(st.Comment[1:], "\n", " ")
			default:
				line += " #" + strings.ReplaceAll(st.Comment, "\n", " ")
			}
			lines = append(lines, line)
			wantProbes = append(wantProbes, argv)
		case "getenv":
			if !validName(st.Name) {
				return nil
			}
			v := get(st.Name)
			if strings.HasPrefix(v, "\x00") {
				return nil
			}
			lines = append(lines, "getenv "+quoteLit([]byte(st.Name)))
			wantEnvs = append(wantEnvs, tskit.EnvRec{Name: st.Name, Value: v})
		case "printenv":
			var sb strings.Builder
			l := "exec vmain printenv"
			for _, n := range st.Names {
				if !validName(n) {
					return nil
				}
				l += " " + quoteLit([]byte(n))
				if v, ok := env[n]; ok {
					fmt.Fprintf(&sb, "%s=%q\n", n, v)
				} else if v, ok := base.Env()[n]; ok {
					fmt.Fprintf(&sb, "%s=%q\n", n, v)
				} else {
					fmt.Fprintf(&sb, "%s=<unset>\n", n)
				}
			}
			lines = append(lines, l, "recstd")
			wantStd = append(wantStd, sb.String())
		case "dumpenv":
			lines = append(lines, "exec vmain dumpenv", "recstd")
			snap := map[string]string{}
			for k, v := range env {
				snap[k] = v
			}
			dumps = append(dumps, snap)
			wantStd = append(wantStd, fmt.Sprintf("\x00dumpenv%d", len(dumps)-1))
		default:
			return nil
		}
	}
	script := strings.Join(lines, "\n") + "\n"
	if strings.Contains(script, "\n-- ") || strings.HasPrefix(script, "-- ") {
		return nil
	}
	// run
	skippedA--
	ranA++
	root := tskit.Scratch("c02")
	defer tskit.RemoveAll(root)
	r := tskit.NewRecorder()
	p := testscript.Params{ContinueOnError: true, Cmds: r.Cmds(), Setup: func(e *testscript.Env) error {
		e.Vars = append(e.Vars, setup...)
		return nil
	}}
	rr := tskit.RunInProcess(root, []tskit.ScriptFile{{Name: "s", Data: []byte(script)}}, tskit.RunOpts{Params: p, Deadline: 30 * time.Second})
	if len(rr.Subs) != 1 {
		return vt.Failf("runt-top-level", "RunT: %s %s", rr.Top.Verdict, rr.Top.Log)
	}
	sub := rr.Subs[0]
	ctx := fmt.Sprintf("\nsetup vars: %q\nscript:\n%s\nlog:\n%s", setup, script, trunc(sub.Log, 1200))
	if strings.Contains(sub.Log, "test timed out while running command") {
		return vt.BlockedOrBusy(rec, "a script of lines that end by themselves sat in a command until the harness's safety deadline (30s)"+ctx)
	}
	if sub.Verdict != "pass" {
		return vt.Failf("script-did-not-pass", "a script of well-formed env/probe/getenv/printenv lines was reported as %s %s%s", sub.Verdict, sub.Panic, ctx)
	}
	got := r.Probes["s"]
	if len(got) != len(wantProbes) {
		return vt.Failf("argv-differs", "probe ran %d times, expected %d%s", len(got), len(wantProbes), ctx)
	}
	for i, w := range wantProbes {
		g := got[i].Args
		if len(g) != len(w) {
			return vt.Failf("argv-differs", "probe #%d received %d words %q, expected %d words %q%s", i, len(g), g, len(w), w, ctx)
		}
		for j := range w {
			if w[j] == "\x00regexp" {
				continue
			}
			if g[j] != w[j] {
				return vt.Failf("argv-differs", "probe #%d word %d is %q, expected %q%s", i, j, g[j], w[j], ctx)
			}
		}
	}
	for _, rc := range rchecks {
		pat := got[rc.probe].Args[rc.arg]
		re, err := regexp.Compile("^(?:" + pat + ")$")
		if err != nil {
			return vt.Failf("regexp-quote-wrong", "${NAME@R} for value %q expanded to %q which does not compile: %v%s", rc.value, pat, err, ctx)
		}
		if !re.MatchString(rc.value) {
			return vt.Failf("regexp-quote-wrong", "${NAME@R} for value %q expanded to %q which does not match the value%s", rc.value, pat, ctx)
		}
		for _, nm := range nearMisses(rc.value) {
			if nm != rc.value && re.MatchString(nm) {
				return vt.Failf("regexp-quote-wrong", "${NAME@R} for value %q expanded to %q which also matches %q%s", rc.value, pat, nm, ctx)
			}
		}
	}
	ge := r.Envs["s"]
	if len(ge) != len(wantEnvs) {
		return vt.Failf("getenv-differs", "getenv ran %d times, expected %d%s", len(ge), len(wantEnvs), ctx)
	}
	for i := range ge {
		if ge[i] != wantEnvs[i] {
			return vt.Failf("getenv-differs", "TestScript.Getenv(%q) = %q, the latest assignment is %q%s", ge[i].Name, ge[i].Value, wantEnvs[i].Value, ctx)
		}
	}
	gs := r.Std["s"]
	if len(gs) != len(wantStd) {
		return vt.Failf("child-env-differs", "recorded %d helper outputs, expected %d%s", len(gs), len(wantStd), ctx)
	}
	for i := range gs {
		if strings.HasPrefix(wantStd[i], "\x00dumpenv") {
			var k int
			fmt.Sscanf(wantStd[i], "\x00dumpenv%d", &k)
			if f := checkDump(gs[i], dumps[k], base, setup); f != nil {
				f.Msg += ctx
				return f
			}
			continue
		}
		if gs[i] != wantStd[i] {
			return vt.Failf("child-env-differs", "the executed helper printed %q, the script's variables are %q%s", gs[i], wantStd[i], ctx)
		}
	}
	return nil
}

func rapidSep(i int) string {
	return []string{" ", "  ", "\t", " \t "}[i%4]
}

func checkDump(out string, env map[string]string, base *tsmodel.Model, setup []string) *vt.Fail {
	got := map[string]string{}
	for _, l := range strings.Split(strings.TrimSuffix(out, "\n"), "\n") {
		var kv string
		if _, err := fmt.Sscanf(l, "%q", &kv); err != nil {
			return vt.Failf("child-env-differs", "unparsable dumpenv line %q", l)
		}
		i := strings.Index(kv, "=")
		if i < 0 {
			continue
		}
		if _, dup := got[kv[:i]]; dup {
			return vt.Failf("child-env-differs", "the child's environment has %q twice", kv[:i])
		}
		got[kv[:i]] = kv[i+1:]
	}
	want := base.Env()
	for k, v := range env {
		want[k] = v
	}
	for k, v := range want {
		if k == "WORK" || k == "PATH" || k == "TMPDIR" {
			if _, ok := got[k]; !ok {
				return vt.Failf("child-env-differs", "the child's environment lacks %s", k)
			}
			if _, overridden := env[k]; !overridden {
				continue
			}
		}
		if g, ok := got[k]; !ok || g != v {
			return vt.Failf("child-env-differs", "the child sees %s=%q (present %v), the script's value is %q", k, g, ok, v)
		}
	}
	for k := range got {
		if _, ok := want[k]; !ok && k != "PWD" {
			return vt.Failf("child-env-differs", "the child's environment has an extra variable %q", k)
		}
	}
	return nil
}

func nearMisses(v string) []string {
	var out []string
	b := []byte(v)
	for i := 0; i < len(b) && i < 12; i++ {
		x := append([]byte(nil), b...)
		x[i] ^= 1
		out = append(out, string(x))
		out = append(out, string(append(append([]byte{}, b[:i]...), b[i+1:]...)))
		out = append(out, string(append(append(append([]byte{}, b[:i]...), 'Z'), b[i:]...)))
		// what the metacharacter would match unescaped
		switch b[i] {
		case '.':
			x2 := append([]byte(nil), b...)
			x2[i] = 'Q'
			out = append(out, string(x2))
		case '*', '+', '?':
			out = append(out, string(append(append([]byte{}, b[:i]...), b[i+1:]...)))
		}
	}
	out = append(out, v+"x", "x"+v, "")
	return out
}

func trunc(s string, n int) string {
	if len(s) > n {
		return s[:n] + "..."
	}
	return s
}

var valuePool = []string{"plain", "two words", "tab\there", "it's", "'quoted'", "$HOME", "${X}", "$$", "a#b", "#lead", "x\ry", "", "a.b*c+d?", "[a-z]{2}|(x)", `back\slash`, "\xff\xfe", "é日本", "a=b=c", "  lead and trail  ", "^anchor$",
	// white space in the Unicode sense that is no word separator of the script language (form feed, vertical tab, NEL,
	// no-break space, ideographic space): part of the word wherever it stands
	"x\f", "\vx", "end\u00a0", "\u0085z", "\u3000", "a\u2003b"}

// (names that differ only in letter case are different variables on this platform: var/Var next to VAR, home next to
// HOME, Lower next to lower)
var namePool = []string{"VAR", "FOO", "X_1", "HOME", "lower", "A", "VAR_X", "FOOBAR", "HOME_DIR", "A_B", "X_10", "VA", "var", "Var", "home", "Lower", "foo", "a"}
var wideNames = []string{"a.b", "x-y", "1x", "é", "a:b", "1", "0", "9", "12"}

func genValue(t *rapid.T, label string) []byte {
	if rapid.IntRange(0, 3).Draw(t, label+"arb") == 0 {
		var b []byte
		for _, c := range rapid.SliceOfN(rapid.Byte(), 0, 8).Draw(t, label+"bytes") {
			if c != '\n' && c != 0 {
				b = append(b, c)
			}
		}
		return b
	}
	return []byte(rapid.SampledFrom(valuePool).Draw(t, label+"val"))
}

func genWord(t *rapid.T, names []string) word {
	n := rapid.IntRange(1, 4).Draw(t, "npieces")
	var w word
	for i := 0; i < n; i++ {
		switch k := rapid.IntRange(0, 9).Draw(t, "pkind"); {
		case k <= 4:
			p := piece{Kind: "lit", Text: genValue(t, "lit"), Quote: rapid.SampledFrom([]string{"bare", "full", "split"}).Draw(t, "quote"), Cut: rapid.IntRange(0, 50).Draw(t, "cut")}
			if rapid.IntRange(0, 59).Draw(t, "long") == 41 && len(p.Text) > 0 {
				// a word longer than 4 KiB / 64 KiB
				p.Rep = rapid.SampledFrom([]int{4100, 65536, 70000}).Draw(t, "longlen")/len(p.Text) + 1
			}
			w = append(w, p)
		case k <= 6:
			if rapid.IntRange(0, 7).Draw(t, "digitvar") == 6 {
				w = append(w, piece{Kind: "digitvar", Text: vt.B(rapid.SampledFrom([]string{"1x", "0_9", "12", "1x", "9a", "1X_"}).Draw(t, "dname"))})
				break
			}
			w = append(w, piece{Kind: "var", Text: vt.B(rapid.SampledFrom(namePool).Draw(t, "vname"))})
		case k == 7:
			w = append(w, piece{Kind: "brace", Text: vt.B(rapid.SampledFrom(names).Draw(t, "bname"))})
		case k == 8:
			w = append(w, piece{Kind: "dollar"})
		default:
			return word{{Kind: "regexp", Text: vt.B(rapid.SampledFrom(names).Draw(t, "rname"))}}
		}
	}
	return w
}

func genA(t *rapid.T) caseA {
	var c caseA
	names := append(append([]string{}, namePool...), wideNames...)
	for i, n := 0, rapid.IntRange(0, 4).Draw(t, "nsetup"); i < n; i++ {
		c.Setup = append(c.Setup, rapid.SampledFrom(names).Draw(t, "sname")+"="+string(genValue(t, "sv")))
	}
	if rapid.IntRange(0, 7).Draw(t, "burst") == 5 {
		// many reassignments of a few variables (the list of NAME=value entries grows with every one), each followed
		// now and then by a look at what programs and expansions see
		bn := rapid.SliceOfNDistinct(rapid.SampledFrom(names), 1, 3, rapid.ID[string]).Draw(t, "burstnames")
		for i, nb := 0, rapid.IntRange(15, 45).Draw(t, "nburst"); i < nb; i++ {
			kind := "env"
			if rapid.IntRange(0, 3).Draw(t, "bsetenv") == 2 {
				kind = "setenv"
			}
			c.Steps = append(c.Steps, stepA{Kind: kind, Name: rapid.SampledFrom(bn).Draw(t, "bname"), Value: vt.B(fmt.Sprintf("v%d", i))})
			switch rapid.IntRange(0, 13).Draw(t, "blook") {
			case 1:
				c.Steps = append(c.Steps, stepA{Kind: "printenv", Names: []string{bn[0], bn[len(bn)-1]}})
			case 2:
				c.Steps = append(c.Steps, stepA{Kind: "dumpenv"})
			case 3:
				c.Steps = append(c.Steps, stepA{Kind: "getenv", Name: bn[0]})
			}
		}
	}
	n := rapid.IntRange(3, 20).Draw(t, "nsteps")
	for i := 0; i < n; i++ {
		switch k := rapid.IntRange(0, 11).Draw(t, "skind"); {
		case k <= 2:
			c.Steps = append(c.Steps, stepA{Kind: "env", Name: rapid.SampledFrom(names).Draw(t, "ename"), Value: genValue(t, "ev")})
		case k == 3:
			c.Steps = append(c.Steps, stepA{Kind: "setenv", Name: rapid.SampledFrom(names).Draw(t, "ename"), Value: genValue(t, "ev")})
		case k <= 8:
			st := stepA{Kind: "probe"}
			for j, nw := 0, rapid.IntRange(0, 4).Draw(t, "nwords"); j < nw; j++ {
				st.Words = append(st.Words, genWord(t, names))
			}
			st.Comment = rapid.SampledFrom([]string{"", "", "comment text", " $VAR 'unterminated", "-glued"}).Draw(t, "comment")
			c.Steps = append(c.Steps, st)
		case k == 9:
			c.Steps = append(c.Steps, stepA{Kind: "getenv", Name: rapid.SampledFrom(names).Draw(t, "gname")})
		case k == 10:
			c.Steps = append(c.Steps, stepA{Kind: "printenv", Names: []string{rapid.SampledFrom(names).Draw(t, "p1"), rapid.SampledFrom(names).Draw(t, "p2")}})
		default:
			c.Steps = append(c.Steps, stepA{Kind: "dumpenv"})
		}
	}
	return c
}

func metaA(c caseA) vt.Meta {
	nt := false
	assigned := map[string]int{}
	var cl []string
	for _, kv := range c.Setup {
		assigned[kv[:strings.Index(kv, "=")]]++
	}
	for _, st := range c.Steps {
		switch st.Kind {
		case "env", "setenv":
			assigned[st.Name]++
			if assigned[st.Name] > 1 {
				nt = true
			}
		case "probe":
			for _, w := range st.Words {
				for i, p := range w {
					if p.Kind == "lit" && p.Quote != "bare" && len(w) > 1 {
						nt = true
					}
					if p.Kind == "regexp" {
						nt = true
						cl = append(cl, "regexp-quote")
					}
					_ = i
				}
			}
		case "dumpenv", "printenv":
			cl = append(cl, "child-env")
		}
	}
	sort.Strings(cl)
	var u []string
	for i, s := range cl {
		if i == 0 || cl[i-1] != s {
			u = append(u, s)
		}
	}
	return vt.Meta{NonTrivial: nt, Classes: u}
}

func TestConstructive(t *testing.T) {
	vt.Run(t, rec, vt.Prop[caseA]{Kind: "constructive", Gen: genA, Check: checkA, Meta: metaA, Reduce: func(c caseA) []caseA {
		var out []caseA
		for _, s := range vt.DropOne(c.Steps) {
			d := c
			d.Steps = s
			out = append(out, d)
		}
		return out
	}}, vt.N(400, 20000))
	rec.Class("constructive:executed", ranA)
	rec.Class("constructive:skipped-unrenderable", skippedA)
}

// ---------- (b) analytic: raw lines against the reference tokenizer ----------

type caseB struct {
	Setup []string `json:"setup"`
	Lines []string `json:"lines"` // argument text of "probe " lines
}

var alphabetB = []string{" ", " ", "\t", "'", "'", "$VAR", "${VAR}", "${A}", "${VAR@R}", "$$", "$A", "#", "=", "a", "b", "Z", "0", "-", ".", "\\", "''", "' '", "}", "{", "@", "R", "${lower}"}

func genB(t *rapid.T) caseB {
	c := caseB{Setup: []string{"VAR=v a l", "A=it's", "lower=$VAR"}}
	if rapid.Bool().Draw(t, "altsetup") {
		c.Setup = []string{"VAR=", "A=x#y", "lower='q'", "VAR=second value"}
	}
	for i, n := 0, rapid.IntRange(1, 20).Draw(t, "nlines"); i < n; i++ {
		var sb strings.Builder
		for j, k := 0, rapid.IntRange(0, 12).Draw(t, "ntok"); j < k; j++ {
			sb.WriteString(rapid.SampledFrom(alphabetB).Draw(t, "tok"))
		}
		c.Lines = append(c.Lines, sb.String())
	}
	return c
}

func checkB(c caseB) *vt.Fail {
	for _, kv := range c.Setup {
		if i := strings.Index(kv, "="); i <= 0 || strings.ContainsAny(kv, "\n\x00") {
			return nil
		}
	}
	h := tsmodel.Host{WorkAbs: "/WORKDIR", Path: "/bin", SetupEnv: c.Setup}
	base := tsmodel.New(tsmodel.Params{}, h, nil)
	var lines []string
	type exp struct {
		argv []string
		fail bool
	}
	var exps []exp
	for _, l := range c.Lines {
		if strings.ContainsAny(l, "\n") {
			return nil
		}
		line := "probe " + l
		argv, err := tsmodel.Tokenize(line, base.Getenv)
		if err != nil && err != tsmodel.ErrUnterminated {
			continue // syntax the statement does not define: not generated on purpose, skipped here
		}
		lines = append(lines, line)
		if err != nil {
			exps = append(exps, exp{fail: true})
		} else {
			exps = append(exps, exp{argv: argv[1:]})
		}
	}
	if len(lines) == 0 {
		return nil
	}
	script := strings.Join(lines, "\n") + "\n"
	if strings.Contains(script, "\n-- ") {
		return nil
	}
	root := tskit.Scratch("c02b")
	defer tskit.RemoveAll(root)
	r := tskit.NewRecorder()
	p := testscript.Params{ContinueOnError: true, Cmds: r.Cmds(), Setup: func(e *testscript.Env) error {
		e.Vars = append(e.Vars, c.Setup...)
		return nil
	}}
	rr := tskit.RunInProcess(root, []tskit.ScriptFile{{Name: "s", Data: []byte(script)}}, tskit.RunOpts{Params: p, Deadline: 30 * time.Second})
	if len(rr.Subs) != 1 {
		return vt.Failf("runt-top-level", "RunT: %s %s", rr.Top.Verdict, rr.Top.Log)
	}
	sub := rr.Subs[0]
	ctx := fmt.Sprintf("\nsetup vars: %q\nscript:\n%s\nlog:\n%s", c.Setup, script, trunc(sub.Log, 1200))
	if strings.Contains(sub.Log, "test timed out while running command") {
		return vt.BlockedOrBusy(rec, "a script of lines that end by themselves sat in a command until the harness's safety deadline (30s)"+ctx)
	}
	failLines, _ := tskit.FailLines(sub.Log, rr.Files[0])
	var wantFail []int
	var wantArgv [][]string
	for i, e := range exps {
		if e.fail {
			wantFail = append(wantFail, i+1)
		} else {
			wantArgv = append(wantArgv, e.argv)
		}
	}
	if fmt.Sprint(failLines) != fmt.Sprint(wantFail) {
		return vt.Failf("unterminated-quote-lines-differ", "lines reported as failing %v, lines with an unterminated quote %v%s", failLines, wantFail, ctx)
	}
	got := r.Probes["s"]
	if len(got) != len(wantArgv) {
		return vt.Failf("argv-differs", "probe ran %d times, expected %d%s", len(got), len(wantArgv), ctx)
	}
	for i := range got {
		if len(got[i].Args) != len(wantArgv[i]) {
			return vt.Failf("argv-differs", "probe #%d received %q, the documented splitting gives %q%s", i, got[i].Args, wantArgv[i], ctx)
		}
		for j := range wantArgv[i] {
			if got[i].Args[j] != wantArgv[i][j] {
				return vt.Failf("argv-differs", "probe #%d received %q, the documented splitting gives %q%s", i, got[i].Args, wantArgv[i], ctx)
			}
		}
	}
	return nil
}

func TestAnalytic(t *testing.T) {
	vt.Run(t, rec, vt.Prop[caseB]{Kind: "analytic", Gen: genB, Check: checkB, Meta: func(c caseB) vt.Meta {
		nt := false
		for _, l := range c.Lines {
			if strings.Contains(l, "'") && strings.Contains(l, "$") {
				nt = true
			}
		}
		return vt.Meta{NonTrivial: nt, Classes: []string{fmt.Sprintf("lines=%d", min(len(c.Lines)/5*5, 20))}}
	}, Reduce: func(c caseB) []caseB {
		var out []caseB
		for _, l := range vt.DropOne(c.Lines) {
			d := c
			d.Lines = l
			out = append(out, d)
		}
		return out
	}}, vt.N(400, 20000))
}

var replayers = vt.Replayer{"constructive": vt.Decode(checkA), "analytic": vt.Decode(checkB)}

func TestReplay(t *testing.T) { vt.Replay(t, rec, replayers) }

// FuzzLine: bytes -> a line of the structural alphabet via a data-provider layer (thorough only).
func FuzzLine(f *testing.F) {
	f.Add([]byte{0, 3, 5, 12, 4, 9})
	f.Add([]byte{3, 3, 3})
	f.Fuzz(func(t *testing.T, data []byte) {
		var sb strings.Builder
		for _, b := range data {
			sb.WriteString(alphabetB[int(b)%len(alphabetB)])
		}
		if len(data) > 40 {
			return
		}
		c := caseB{Setup: []string{"VAR=v a l", "A=it's", "lower=$VAR"}, Lines: []string{sb.String()}}
		if fl := vt.Guard("harness-panic", func() *vt.Fail { return checkB(c) }); fl != nil {
			if rec.Report("analytic", fl, c) {
				t.Fatalf("%v", fl)
			}
		}
	})
}
