// Package cachekit holds helpers shared by the cache checks (C05, C11, C12, C13):
// a fixed small ID space, deterministic contents, path computation that does
// not depend on the code under test, and a reusable cache directory.
package cachekit

import (
	"crypto/sha256"
	"fmt"
	"io"
	"os"
	"path/filepath"
	"strings"
)

const HashSize = 32

// ID returns action ID number i. IDs 0,1 share their first byte (same sub-directory), as do 2,3.
func ID(i int) [HashSize]byte {
	var id [HashSize]byte
	h := sha256.Sum256([]byte(fmt.Sprintf("verif-action-%d", i)))
	id = h
	id[0] = byte(0x10 + i/2)
	return id
}

// Content returns deterministic content number c.
//
//	0: empty  1: 1 byte  2: 139 bytes  3: 4095  4: 4096  5: 4097  6: 100 KiB  7: 139 bytes (differs from 2)
//	8: 2 bytes  9: 32768 (the io.Copy buffer)  10: 32769  11: 65537
func Content(c int) []byte {
	sizes := []int{0, 1, 139, 4095, 4096, 4097, 100 << 10, 139, 2, 32768, 32769, 65537}
	n := sizes[c%len(sizes)]
	b := make([]byte, n)
	x := uint32(c*2654435761 + 12345)
	for i := range b {
		x = x*1664525 + 1013904223
		b[i] = byte(x >> 24)
	}
	if n > 8 {
		copy(b, fmt.Sprintf("C%d:", c))
	}
	return b
}

const NContents = 12

func Sum(b []byte) [HashSize]byte { return sha256.Sum256(b) }

// IndexPath / DataPath: on-disk layout (documented in cache.go: <dir>/<first byte hex>/<hex>-a|-d).
func IndexPath(dir string, id [HashSize]byte) string {
	return filepath.Join(dir, fmt.Sprintf("%02x", id[0]), fmt.Sprintf("%x-a", id))
}
func DataPath(dir string, out [HashSize]byte) string {
	return filepath.Join(dir, fmt.Sprintf("%02x", out[0]), fmt.Sprintf("%x-d", out))
}

// Entry formats an index entry the way the cache documents it.
func Entry(id, out [HashSize]byte, size int64, unixnano int64) string {
	return fmt.Sprintf("v1 %x %x %20d %20d\n", id, out, size, unixnano)
}

// NewDir creates a fresh cache directory (with the 256 sub-directories) under base.
func NewDir(base, name string) (string, error) {
	dir := filepath.Join(base, name)
	if err := os.MkdirAll(dir, 0o777); err != nil {
		return "", err
	}
	for i := 0; i < 256; i++ {
		if err := os.MkdirAll(filepath.Join(dir, fmt.Sprintf("%02x", i)), 0o777); err != nil {
			return "", err
		}
	}
	return dir, nil
}

// Clean removes every file below dir (keeps the 256 sub-directories). It only
// visits sub-directories listed in hot (first bytes) plus top-level files, unless hot is nil.
func Clean(dir string, hot map[byte]bool) {
	ents, _ := os.ReadDir(dir)
	for _, e := range ents {
		p := filepath.Join(dir, e.Name())
		if !e.IsDir() {
			os.Remove(p)
			continue
		}
		if len(e.Name()) == 2 && isHex(e.Name()) {
			var b byte
			fmt.Sscanf(e.Name(), "%02x", &b)
			if hot != nil && !hot[b] {
				continue
			}
			sub, _ := os.ReadDir(p)
			for _, s := range sub {
				os.RemoveAll(filepath.Join(p, s.Name()))
			}
			continue
		}
		os.RemoveAll(p)
	}
}

func isHex(s string) bool { return strings.Trim(s, "0123456789abcdef") == "" }

// Scratch returns the scratch base directory for this process.
func Scratch() string {
	if d := os.Getenv("VERIF_SCRATCH"); d != "" {
		return d
	}
	return os.TempDir()
}

// HookSrc is a healthy io.ReadSeeker over Data which, in its Pass-th pass (a pass starts with a Seek to the start), hands
// out the bytes before offset At and then - when asked for the byte at that offset - first lets Fn run, once. It makes
// "another user of the directory does something while this Put has copied At bytes" a deterministic, replayable event.
type HookSrc struct {
	Data  []byte
	Pass  int
	At    int
	Fn    func()
	Fired bool
	pass  int
	off   int
}

func (s *HookSrc) Seek(off int64, whence int) (int64, error) {
	if whence != 0 {
		return 0, fmt.Errorf("HookSrc: only SeekStart")
	}
	s.pass++
	s.off = int(off)
	return off, nil
}

func (s *HookSrc) Read(p []byte) (int, error) {
	end := len(s.Data)
	if s.pass == s.Pass && !s.Fired {
		if s.off < s.At && s.At <= len(s.Data) {
			end = s.At
		} else if s.off == s.At {
			s.Fired = true
			s.Fn()
		}
	}
	if s.off >= len(s.Data) {
		return 0, io.EOF
	}
	n := copy(p, s.Data[s.off:end])
	s.off += n
	return n, nil
}
