package cachekit

import (
	"encoding/binary"
	"time"
)

// ZoneWithTransition builds a time zone whose UTC offset changes from before to after seconds at the instant at: the
// situation of a process running in a zone with daylight-saving time on the day of the change (TZif version 1 data
// handed to time.LoadLocationFromTZData).
func ZoneWithTransition(name string, at time.Time, before, after int) (*time.Location, error) {
	var b []byte
	b = append(b, "TZif"...)
	b = append(b, 0)                   // version 1
	b = append(b, make([]byte, 15)...) // reserved
	u32 := func(v uint32) { b = binary.BigEndian.AppendUint32(b, v) }
	u32(0) // isutcnt
	u32(0) // isstdcnt
	u32(0) // leapcnt
	u32(1) // timecnt
	u32(2) // typecnt
	u32(8) // charcnt: "BEF\0AFT\0"
	u32(uint32(int32(at.Unix())))
	b = append(b, 1) // the transition switches to type 1
	// ttinfo 0 (before), ttinfo 1 (after)
	u32(uint32(int32(before)))
	b = append(b, 0, 0)
	u32(uint32(int32(after)))
	b = append(b, 1, 4)
	b = append(b, "BEF\x00AFT\x00"...)
	return time.LoadLocationFromTZData(name, b)
}
