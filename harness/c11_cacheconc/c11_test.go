package c11

import (
	"bufio"
	"bytes"
	"crypto/sha256"
	"encoding/json"
	"fmt"
	"hash/crc32"
	"os"
	"os/exec"
	"path/filepath"
	"strings"
	"sync"
	"testing"
	"time"

	"github.com/rogpeppe/go-internal/cache"
	"pgregory.net/rapid"

	"verif/cachekit"
	cachex "verif/gen/cachex"
	"verif/sched"
	"verif/shim/fos"
	"verif/vt"
)

var rec = vt.New("C11")

func TestMain(m *testing.M) {
	if os.Getenv("VERIF_ROLE") == "c11-worker" {
		workerMain()
		return
	}
	vt.Main(m, rec)
}

// ---- payloads: self-describing ----

const nIDs = 4 // ids 0,1 stable (one content), ids 2,3 volatile (three contents: two of equal size)

func stable(id int) bool { return id < 2 }

func payload(id, ver int) []byte {
	if stable(id) {
		ver = 0
	}
	sizes := []int{300, 300, 1700}
	n := sizes[ver%3] + 40*id
	b := bytes.Repeat([]byte{byte('a' + id*3 + ver)}, n)
	hdr := fmt.Sprintf("id=%d|ver=%d|len=%d|", id, ver%3, n)
	copy(b, hdr)
	sum := crc32.ChecksumIEEE(b[:n-8])
	copy(b[n-8:], fmt.Sprintf("%08x", sum))
	return b
}

// decode checks that b is a payload stored for id.
func decode(id int, b []byte) bool {
	for v := 0; v < 3; v++ {
		if bytes.Equal(b, payload(id, v)) {
			return true
		}
	}
	return false
}

type aop struct {
	Kind string `json:"kind"` // put getbytes getfile
	ID   int    `json:"id"`
	Ver  int    `json:"ver"`
}

type concCase struct {
	Actors  [][]aop `json:"actors"`
	Mode    string  `json:"mode"`
	Sched   []uint8 `json:"sched,omitempty"`
	Prio    []uint8 `json:"prio,omitempty"`
	Changes []int   `json:"changes,omitempty"`
	// Dangling: ids that start with an index entry whose output file is gone - the state a Trim leaves behind when
	// lookups kept the entry fresh and nobody used the output (not damage). A lookup of such an id misses; a Put of it
	// running next to that lookup must still leave it readable.
	Dangling []int `json:"dangling,omitempty"`
}

func (c concCase) strategy() sched.Strategy {
	if c.Mode == "pct" {
		return &sched.PCT{Prio: c.Prio, Changes: c.Changes}
	}
	return &sched.Seq{Sched: c.Sched}
}

var (
	dirOnce sync.Once
	dir     string
	dirErr  error
	hot     = map[byte]bool{}
)

func cacheDir() (string, error) {
	dirOnce.Do(func() {
		dir, dirErr = cachekit.NewDir(cachekit.Scratch(), fmt.Sprintf("c11-%d", os.Getpid()))
		for i := 0; i < nIDs; i++ {
			hot[cachekit.ID(i)[0]] = true
			for v := 0; v < 3; v++ {
				hot[cachekit.Sum(payload(i, v))[0]] = true
			}
		}
	})
	return dir, dirErr
}

type outcome struct {
	fail       *vt.Fail
	interleave bool
	stuck      bool
	steps      int
}

func valid(c concCase) bool {
	if len(c.Actors) < 1 || len(c.Actors) > 6 {
		return false
	}
	for _, p := range c.Actors {
		for _, o := range p {
			if o.ID < 0 || o.ID >= nIDs || o.Ver < 0 || o.Ver > 2 || (o.Kind != "put" && o.Kind != "getbytes" && o.Kind != "getfile") {
				return false
			}
		}
	}
	return true
}

func run(c concCase, strat sched.Strategy, trace bool) outcome {
	d, err := cacheDir()
	if err != nil {
		return outcome{fail: vt.Failf("HARNESS-dir", "%v", err)}
	}
	cachekit.Clean(d, hot)
	if len(c.Dangling) > 0 {
		if rc, err := cache.Open(d); err == nil {
			for _, id := range c.Dangling {
				if id >= 0 && id < nIDs {
					pl := payload(id, 0)
					rc.PutBytes(cache.ActionID(cachekit.ID(id)), pl)
					os.Remove(cachekit.DataPath(d, cachekit.Sum(pl)))
				}
			}
		}
	}
	var bad *vt.Fail
	setBad := func(f *vt.Fail) {
		if bad == nil {
			bad = f
		}
	}
	putReturned := map[int]bool{} // id -> some Put(id) has returned
	everPut := map[int]bool{}
	inPut := map[int]int{}
	inLookup := map[int]int{}
	interleave := false
	aid := func(id int) cachex.ActionID { return cachex.ActionID(cachekit.ID(id)) }
	fos.Reset()
	fos.Scheduled(true)
	res := sched.Run(strat, sched.Options{MaxSteps: 100000, KeepTrace: trace}, func() {
		for ti, prog := range c.Actors {
			ti, prog := ti, prog
			sched.GoNamed(fmt.Sprintf("actor%d", ti), func() {
				xc, err := cachex.Open(d)
				if err != nil {
					setBad(vt.Failf("HARNESS-open", "%v", err))
					return
				}
				for oi, op := range prog {
					what := fmt.Sprintf("actor %d op %d %s(id%d,v%d)", ti, oi, op.Kind, op.ID, op.Ver)
					switch op.Kind {
					case "put":
						if inLookup[op.ID] > 0 {
							interleave = true
						}
						inPut[op.ID]++
						everPut[op.ID] = true
						err := xc.PutBytes(aid(op.ID), payload(op.ID, op.Ver))
						inPut[op.ID]--
						if err != nil {
							setBad(vt.Failf("put-failed", "%s failed: %v", what, err))
						}
						putReturned[op.ID] = true
					case "getbytes":
						must := stable(op.ID) && putReturned[op.ID]
						if inPut[op.ID] > 0 {
							interleave = true
						}
						inLookup[op.ID]++
						b, e, err := xc.GetBytes(aid(op.ID))
						inLookup[op.ID]--
						switch {
						case err != nil:
							if must {
								setBad(vt.Failf("stable-id-missed", "%s missed although a Put of this never-changing id had returned before the lookup started: %v", what, err))
							}
						case !decode(op.ID, b):
							setBad(vt.Failf("foreign-or-corrupt-bytes", "%s returned %d bytes that no Put stored for this id (starts %q)", what, len(b), head(b)))
						case sha256.Sum256(b) != [32]byte(e.OutputID) || int64(len(b)) != e.Size:
							setBad(vt.Failf("hash-or-size-mismatch", "%s: returned bytes do not match the reported OutputID/Size", what))
						}
					case "getfile":
						must := stable(op.ID) && putReturned[op.ID]
						if inPut[op.ID] > 0 {
							interleave = true
						}
						inLookup[op.ID]++
						file, e, err := xc.GetFile(aid(op.ID))
						inLookup[op.ID]--
						if err != nil {
							if must {
								setBad(vt.Failf("stable-id-missed", "%s missed although a Put of this never-changing id had returned before the lookup started: %v", what, err))
							}
							break
						}
						b, _ := os.ReadFile(file) // same scheduler step as the return of GetFile
						switch {
						case !decode(op.ID, b):
							setBad(vt.Failf("foreign-or-corrupt-bytes", "%s names a file holding %d bytes that no Put stored for this id (starts %q)", what, len(b), head(b)))
						case sha256.Sum256(b) != [32]byte(e.OutputID) || int64(len(b)) != e.Size:
							setBad(vt.Failf("hash-or-size-mismatch", "%s: file does not match the reported OutputID/Size", what))
						}
					}
				}
			})
		}
	})
	fos.Scheduled(false)
	fos.Reset()
	o := outcome{interleave: interleave, steps: res.Steps}
	ctx := ""
	if trace {
		tr := res.Trace
		if len(tr) > 120 {
			tr = tr[len(tr)-120:]
		}
		ctx = fmt.Sprintf("\ntrace: %v", tr)
	}
	switch {
	case res.Stuck:
		o.stuck = true
		return o
	case len(res.Panics) > 0:
		o.fail = vt.Failf("panic", "%s%s", res.Panics[0], ctx)
	case res.Deadlock || res.Overrun:
		o.fail = vt.Failf("deadlock", "deadlock=%v overrun=%v %v%s", res.Deadlock, res.Overrun, res.Blocked, ctx)
	case bad != nil:
		bad.Msg += ctx
		o.fail = bad
	}
	if o.fail == nil {
		// quiescence: every id that was Put is readable by both lookups (uninstrumented package)
		rc, _ := cache.Open(d)
		for id := range everPut {
			b, _, err := rc.GetBytes(cache.ActionID(cachekit.ID(id)))
			if err != nil || !decode(id, b) {
				o.fail = vt.Failf("unreadable-after-quiescence", "after all actors finished id%d is not readable with GetBytes: %v%s", id, err, ctx)
				break
			}
			file, _, err := rc.GetFile(cache.ActionID(cachekit.ID(id)))
			if err != nil {
				o.fail = vt.Failf("unreadable-after-quiescence", "after all actors finished id%d is not readable with GetFile: %v%s", id, err, ctx)
				break
			}
			if fb, _ := os.ReadFile(file); !decode(id, fb) {
				o.fail = vt.Failf("unreadable-after-quiescence", "after all actors finished GetFile(id%d) names a file with foreign bytes%s", id, ctx)
				break
			}
		}
	}
	return o
}

func head(b []byte) string {
	if len(b) > 24 {
		b = b[:24]
	}
	return string(b)
}

var stuckSeen bool

func checkConc(c concCase) *vt.Fail {
	if !valid(c) {
		return nil
	}
	o := run(c, c.strategy(), false)
	if o.stuck {
		if !stuckSeen {
			stuckSeen = true
			rec.Infra("a task blocked outside the scheduler shims")
		}
		return nil
	}
	if o.fail != nil {
		if o2 := run(c, c.strategy(), true); o2.fail != nil {
			return o2.fail
		}
		return o.fail
	}
	return nil
}

func genOp(t *rapid.T, hotID int) aop {
	o := aop{Kind: rapid.SampledFrom([]string{"put", "getbytes", "getfile", "put"}).Draw(t, "kind")}
	if rapid.IntRange(0, 3).Draw(t, "hot") != 0 {
		o.ID = hotID
	} else {
		o.ID = rapid.IntRange(0, nIDs-1).Draw(t, "id")
	}
	o.Ver = rapid.IntRange(0, 2).Draw(t, "ver")
	return o
}

func genConc(t *rapid.T) concCase {
	var c concCase
	na := rapid.IntRange(2, 4).Draw(t, "actors")
	hotID := rapid.IntRange(0, nIDs-1).Draw(t, "hotid")
	template := rapid.IntRange(0, 2).Draw(t, "template") == 0
	for i := 0; i < na; i++ {
		var p []aop
		if template {
			// one actor re-Puts a stable id several times while the others look it up
			sid := hotID % 2
			if i == 0 {
				for k, n := 0, rapid.IntRange(2, 4).Draw(t, "reputs"); k < n; k++ {
					p = append(p, aop{Kind: "put", ID: sid})
				}
			} else {
				p = append(p, aop{Kind: "put", ID: sid})
				for k, n := 0, rapid.IntRange(1, 3).Draw(t, "lookups"); k < n; k++ {
					p = append(p, aop{Kind: rapid.SampledFrom([]string{"getbytes", "getfile"}).Draw(t, "lk"), ID: sid})
				}
			}
		} else {
			for k, n := 0, rapid.IntRange(1, 4).Draw(t, "nops"); k < n; k++ {
				p = append(p, genOp(t, hotID))
			}
		}
		c.Actors = append(c.Actors, p)
	}
	steps := 20
	for _, p := range c.Actors {
		for _, o := range p {
			if o.Kind == "put" {
				steps += 14
			} else {
				steps += 6
			}
		}
	}
	if rapid.IntRange(0, 4).Draw(t, "dangling") == 3 {
		c.Dangling = []int{hotID}
	}
	if rapid.IntRange(0, 3).Draw(t, "mode") == 0 {
		c.Mode = "pct"
		c.Prio = rapid.SliceOfN(rapid.Byte(), 1, 6).Draw(t, "prio")
		c.Changes = rapid.SliceOfN(rapid.IntRange(0, steps), 0, 5).Draw(t, "changes")
	} else {
		c.Mode = "seq"
		c.Sched = rapid.SliceOfN(rapid.Uint8Range(0, 4), steps, steps+40).Draw(t, "sched")
	}
	return c
}

func metaConc(c concCase) vt.Meta {
	// the interleaving flag was computed by the checking run; recompute cheaply
	o := run(c, c.strategy(), false)
	cl := []string{"mode=" + c.Mode, fmt.Sprintf("actors=%d", len(c.Actors))}
	if o.interleave {
		cl = append(cl, "lookup-inside-put-of-same-id")
	}
	return vt.Meta{NonTrivial: o.interleave, Classes: cl}
}

func TestSchedules(t *testing.T) {
	vt.Run(t, rec, vt.Prop[concCase]{Kind: "conc", Gen: genConc, Check: checkConc, Meta: metaConc, Reduce: func(c concCase) []concCase {
		var out []concCase
		for i := range c.Actors {
			for _, ops := range vt.DropOne(c.Actors[i]) {
				d := c
				d.Actors = append([][]aop(nil), c.Actors...)
				d.Actors[i] = ops
				out = append(out, d)
			}
		}
		return out
	}}, vt.N(1500, 25000))
}

// ---- bounded exhaustive: 2 actors x 2 ops ----

type exCase struct {
	Actors     [][]aop `json:"actors"`
	MaxPreempt int     `json:"max_preempt"`
	Dangling   []int   `json:"dangling,omitempty"`
}

var exRuns, exInter int64

func checkExhaustive(c exCase) *vt.Fail {
	cc := concCase{Actors: c.Actors, Dangling: c.Dangling}
	if !valid(cc) {
		return nil
	}
	budget := 3000
	if vt.Thorough() {
		budget = 40000
	}
	e := &sched.Exhaustive{MaxPreempt: c.MaxPreempt, Budget: budget}
	for e.Next() {
		o := run(cc, e, false)
		if o.stuck {
			rec.Infra("task blocked outside the shims")
			return nil
		}
		if o.fail != nil {
			o.fail.Msg = fmt.Sprintf("(execution %d of the bounded enumeration, <=%d preemptions) %s", e.Runs, c.MaxPreempt, o.fail.Msg)
			return o.fail
		}
		if o.interleave {
			exInter++
		}
	}
	exRuns += int64(e.Runs)
	if e.Truncated {
		exTrunc++
	}
	return nil
}

var exTrunc int64

func TestExhaustive(t *testing.T) {
	maxP := 2
	if vt.Thorough() {
		maxP = 3
	}
	put := func(id, v int) aop { return aop{Kind: "put", ID: id, Ver: v} }
	gb := func(id int) aop { return aop{Kind: "getbytes", ID: id} }
	gf := func(id int) aop { return aop{Kind: "getfile", ID: id} }
	configs := [][][]aop{
		{{put(0, 0)}, {put(0, 0), gb(0)}},
		{{put(0, 0)}, {put(0, 0), gf(0)}},
		{{put(0, 0), put(0, 0)}, {put(0, 0), gb(0)}},
		{{put(2, 0), put(2, 1)}, {gb(2), gf(2)}},
		{{put(2, 0)}, {put(2, 2), gb(2)}},
		{{put(2, 1), gf(2)}, {put(2, 0), gb(2)}},
	}
	// the last two start from an entry whose output file was trimmed away
	configs = append(configs, [][]aop{{put(0, 0)}, {gb(0)}}, [][]aop{{put(0, 0)}, {gf(0), gb(0)}})
	for i, cfg := range configs {
		if i%vt.NShards() != vt.Shard() {
			continue
		}
		c := exCase{Actors: cfg, MaxPreempt: maxP}
		if i >= len(configs)-2 {
			c.Dangling = []int{0}
		}
		before := exRuns
		ok := vt.CheckOne(rec, "exhaustive", c, checkExhaustive)
		rec.Sample("exhaustive", 2, map[string]any{"case": c, "executions": exRuns - before})
		if !ok {
			return
		}
	}
	rec.Eval(exRuns)
	rec.NonTrivialDistinct(exInter)
	rec.Class("exhaustive:executions", exRuns)
	rec.Class("exhaustive:lookup-inside-put-of-same-id", exInter)
	rec.Class("exhaustive:configs-truncated-by-budget", exTrunc)
	if exTrunc == 0 {
		rec.Exhaustive(fmt.Sprintf("all file-operation interleavings with <= %d preemptions of %d two-actor programs (this shard: %d executions)", maxP, len(configs), exRuns))
	}
}

// ---- (2) real processes ----

type procCase struct {
	Procs      int `json:"procs"`
	Goroutines int `json:"goroutines"`
	Millis     int `json:"millis"`
	Salt       int `json:"salt"`
	// Trim: one goroutine per process also trims now and then (after removing the record of the last trim, so that the
	// trim is due and really scans): nothing in the directory is older than the run, so nothing may be lost to it
	Trim bool `json:"trim,omitempty"`
}

type workerReport struct {
	Fail    *vt.Fail `json:"fail,omitempty"`
	Ops     int      `json:"ops"`
	Lookups int      `json:"lookups"`
}

func workerMain() {
	d := os.Getenv("VERIF_C11_DIR")
	var pc procCase
	json.Unmarshal([]byte(os.Getenv("VERIF_C11_CASE")), &pc)
	rc, err := cache.Open(d)
	if err != nil {
		os.Exit(3)
	}
	deadline := time.Now().Add(time.Duration(pc.Millis) * time.Millisecond)
	var mu sync.Mutex
	rep := workerReport{}
	var wg sync.WaitGroup
	for g := 0; g < pc.Goroutines; g++ {
		wg.Add(1)
		go func(g int) {
			defer wg.Done()
			x := uint32(pc.Salt*977 + g*31 + os.Getpid())
			ops, lookups := 0, 0
			var bad *vt.Fail
			for time.Now().Before(deadline) && bad == nil {
				x = x*1664525 + 1013904223
				id := int(x>>8) % nIDs
				ver := int(x>>16) % 3
				ops++
				if pc.Trim && g == 0 && ops%40 == 7 {
					os.Remove(filepath.Join(d, "trim.txt"))
					if err := rc.Trim(); err != nil {
						bad = vt.Failf("trim-failed", "Trim failed in a worker process: %v", err)
					}
				}
				switch (x >> 24) % 3 {
				case 0:
					if err := rc.PutBytes(cache.ActionID(cachekit.ID(id)), payload(id, ver)); err != nil {
						bad = vt.Failf("put-failed", "Put(id%d) failed in a worker process: %v", id, err)
					}
				case 1:
					lookups++
					b, e, err := rc.GetBytes(cache.ActionID(cachekit.ID(id)))
					if err != nil {
						if stable(id) {
							bad = vt.Failf("stable-id-missed", "GetBytes(id%d) missed in a worker process although the id was stored before the workers started and only ever re-stored with identical content: %v", id, err)
						}
					} else if !decode(id, b) {
						bad = vt.Failf("foreign-or-corrupt-bytes", "GetBytes(id%d) returned %d bytes no Put stored for it (starts %q)", id, len(b), head(b))
					} else if sha256.Sum256(b) != [32]byte(e.OutputID) || int64(len(b)) != e.Size {
						bad = vt.Failf("hash-or-size-mismatch", "GetBytes(id%d): bytes do not match OutputID/Size", id)
					}
				case 2:
					lookups++
					_, e, err := rc.GetFile(cache.ActionID(cachekit.ID(id)))
					if err != nil {
						if stable(id) {
							bad = vt.Failf("stable-id-missed", "GetFile(id%d) missed in a worker process although the id was stored before the workers started: %v", id, err)
						}
					} else if e.Size != int64(len(payload(id, 0))) && e.Size != int64(len(payload(id, 2))) {
						bad = vt.Failf("hash-or-size-mismatch", "GetFile(id%d) reports size %d which no payload of this id has", id, e.Size)
					}
				}
			}
			mu.Lock()
			rep.Ops += ops
			rep.Lookups += lookups
			if bad != nil && rep.Fail == nil {
				rep.Fail = bad
			}
			mu.Unlock()
		}(g)
	}
	wg.Wait()
	b, _ := json.Marshal(rep)
	fmt.Println(string(b))
}

var procOps, procLookups int64

func checkProcs(pc procCase) *vt.Fail {
	if pc.Procs < 1 || pc.Procs > 8 || pc.Goroutines < 1 || pc.Goroutines > 16 || pc.Millis < 1 || pc.Millis > 20000 {
		return nil
	}
	d, err := cachekit.NewDir(cachekit.Scratch(), fmt.Sprintf("c11p-%d", os.Getpid()))
	if err != nil {
		return vt.Failf("HARNESS-dir", "%v", err)
	}
	cachekit.Clean(d, nil)
	rc, _ := cache.Open(d)
	for id := 0; id < nIDs; id++ {
		if stable(id) {
			rc.PutBytes(cache.ActionID(cachekit.ID(id)), payload(id, 0))
		}
	}
	cj, _ := json.Marshal(pc)
	var cmds []*exec.Cmd
	var outs []*bytes.Buffer
	for p := 0; p < pc.Procs; p++ {
		cmd := exec.Command(os.Args[0], "-test.run=^$")
		cmd.Env = append(os.Environ(), "VERIF_ROLE=c11-worker", "VERIF_C11_DIR="+d, "VERIF_C11_CASE="+string(cj), "VERIF_OUT=")
		var ob bytes.Buffer
		cmd.Stdout = &ob
		cmd.Stderr = &ob
		if err := cmd.Start(); err != nil {
			return vt.Failf("HARNESS-start", "%v", err)
		}
		cmds = append(cmds, cmd)
		outs = append(outs, &ob)
	}
	var fail *vt.Fail
	for i, cmd := range cmds {
		err := cmd.Wait()
		var rep workerReport
		found := false
		sc := bufio.NewScanner(outs[i])
		sc.Buffer(make([]byte, 1<<20), 1<<20)
		for sc.Scan() {
			if strings.HasPrefix(sc.Text(), "{") && json.Unmarshal([]byte(sc.Text()), &rep) == nil {
				found = true
			}
		}
		if err != nil || !found {
			rec.Infra("worker process failed: %v: %s", err, outs[i].String())
			continue
		}
		procOps += int64(rep.Ops)
		procLookups += int64(rep.Lookups)
		if rep.Fail != nil && fail == nil {
			fail = rep.Fail
		}
	}
	if fail != nil {
		return fail
	}
	rc, _ = cache.Open(d)
	for id := 0; id < nIDs; id++ {
		b, _, err := rc.GetBytes(cache.ActionID(cachekit.ID(id)))
		if stable(id) && (err != nil || !decode(id, b)) {
			return vt.Failf("unreadable-after-quiescence", "after all worker processes finished id%d is unreadable: %v", id, err)
		}
		if err == nil && !decode(id, b) {
			return vt.Failf("foreign-or-corrupt-bytes", "after quiescence id%d holds foreign bytes", id)
		}
	}
	return nil
}

func TestProcesses(t *testing.T) {
	n := vt.N(2, 30)
	vt.Run(t, rec, vt.Prop[procCase]{Kind: "procs", Gen: func(t *rapid.T) procCase {
		ms := 300
		if vt.Thorough() {
			ms = rapid.IntRange(500, 2500).Draw(t, "millis")
		}
		return procCase{Procs: rapid.IntRange(2, 3).Draw(t, "procs"), Goroutines: rapid.IntRange(2, 4).Draw(t, "goroutines"), Millis: ms, Salt: rapid.IntRange(0, 1<<20).Draw(t, "salt"), Trim: rapid.Bool().Draw(t, "trim")}
	}, Check: checkProcs, Meta: func(c procCase) vt.Meta {
		cl := []string{fmt.Sprintf("procs=%d", c.Procs)}
		if c.Trim {
			cl = append(cl, "procs-with-trimming")
		}
		return vt.Meta{NonTrivial: true, Classes: cl}
	}}, n)
	rec.Class("procs:operations", procOps)
	rec.Class("procs:lookups", procLookups)
}

var replayers = vt.Replayer{"conc": vt.Decode(checkConc), "exhaustive": vt.Decode(checkExhaustive), "procs": vt.Decode(checkProcs)}

func TestReplay(t *testing.T) { vt.Replay(t, rec, replayers) }
