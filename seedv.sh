#!/bin/bash
# usage: SEED_BASE=/tmp/seed3 ./seedv.sh C13c [checks...]  - short summary of seedverify.py --keep
s=$1; shift
./seedverify.py $s --keep "$@" 2>&1 | python3 -c "
import sys,json
t=sys.stdin.read(); d=json.loads(t[t.index('{'):])
print(d['id'], 'builds',d['builds'], d['baseline'], 'demo', d.get('demo_with_patch_rc'), d.get('demo_without_patch_rc'), 'tests', d['touches_tests'])
for c,v in d['checks'].items(): print(' ',c,v['rc'],[h[:260] for h in v['head'][:3]])
"
