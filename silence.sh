#!/bin/bash
# usage: ./silence.sh <tier> <seeds...> — run every check at several seeds on the unchanged tree; print anything that is not OK.
tier=$1; shift
for s in "$@"; do
  for id in $(python3 -c "import json; print(' '.join(c['property_id'] for c in json.load(open('MANIFEST.json'))['checks']))"); do
    out=$(VERIF_SEED=$s ./run $id $tier 2>&1); rc=$?
    echo "seed=$s $id rc=$rc $(echo "$out" | tail -1 | cut -c1-200)"
    if [ $rc -ne 0 ]; then echo "$out" | head -30 | cut -c1-600; fi
  done
done
