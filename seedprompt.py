#!/usr/bin/env python3
"""usage: ./seedprompt.py <base> <suffix> <Cnn> [focus text]
Creates a scratch worktree <base>/<Cnn><suffix> of /repo's HEAD and prints the brief given to an independent engineer who is to
produce a seeded change for the property: the property text, one-paragraph summaries of the changes already kept for it (so that
a different mechanism is chosen), and nothing from /verif."""
import json, os, subprocess, sys, glob
base, suffix, pid = sys.argv[1:4]
focus = sys.argv[4] if len(sys.argv) > 4 else ""
sid = pid + suffix
wt, out = "%s/%s" % (base, sid), "%s/out/%s" % (base, sid)
os.makedirs(out + "/demo", exist_ok=True)
if not os.path.isdir(wt):
    subprocess.run(["git", "-C", "/repo", "worktree", "add", "--detach", wt, "HEAD"], check=True, stdout=subprocess.DEVNULL, stderr=subprocess.DEVNULL)
prop = [json.loads(l) for l in open("/verif/properties.jsonl") if json.loads(l)["id"] == pid][0]
prev = []
for m in sorted(glob.glob("/verif/seeded/%s*/meta.json" % pid)):
    prev.append(json.load(open(m))["summary"])
note = ""
if prev:
    note = "NOTE: other engineers already produced %d seeded defect(s) for this property. Their summaries were:\n" % len(prev)
    note += "".join('  - "%s"\n' % s.replace("\n", " ")[:900] for s in prev)
    note += ("Your defect must be DIFFERENT from all of them: a different code site and a different mechanism (do not just vary the same idea). "
             "Prefer mechanisms such as: a subtle ordering change, an off-by-one in a boundary, state leaking between two calls, an error path "
             "that forgets a cleanup step, a condition that is inverted only for a rare combination.\n")
if focus:
    note += ("\nAim at this in particular: %s\n" % focus) if focus.startswith("(") else ("\nAim at this part of the statement in particular: \"%s\"\n" % focus)
print(f"""You are helping to evaluate a verification harness by producing a realistic *bug* (a seeded defect) in a Go library.

Workspace: a scratch git worktree of the library rogpeppe/go-internal at {wt} (Go 1.23, offline sandbox). Work ONLY inside {wt} and {out}. Do NOT read, list or modify /verif or /repo (they are off limits: your change must be independent of any existing checker), and do not use the network. Every shell command that runs go needs: export GOFLAGS=-mod=mod GOPROXY=off GOSUMDB=off GOTOOLCHAIN=local

The property the library is supposed to satisfy:

{prop['id']}: {prop['title']}

Statement: {prop['statement']}

Quantifier: {prop['quantifier']['text'] if isinstance(prop['quantifier'], dict) else prop['quantifier']}

Anchored files: {', '.join(prop['anchors']['files'])}

{note}
Your task: make a small change to the library's NON-TEST source in the worktree that BREAKS this property, while
  (1) the module still compiles (go build ./...), and
  (2) the existing test suite still passes, reliably: cd {wt} && go test -vet=off -count=1 ./...   - run it at least twice (known baseline exceptions you may ignore: cmd/testscript TestScripts/env_var_with_go always fails offline; gotooltest TestSimple is flaky/fails offline). A change that makes any other existing test fail even occasionally is not acceptable, and
  (3) the change is realistic: it should look like a plausible refactoring slip, optimisation or "simplification" a maintainer could make - not sabotage guarded by a magic constant, and
  (4) IMPORTANT: the violation must need something specific to manifest - a particular interleaving, a crash or fault at a particular point, a multi-step sequence of operations, an unusual input, or two cooperating code sites that each look fine alone. It must NOT be something that ordinary use or a trivial example exposes immediately.

Also write a demonstration: a Go test file (or small program) that FAILS with your change and PASSES on the unmodified code. Put it in {out}/demo/ (it may be a _test.go file that has to be copied into a package directory of the worktree to run, or a standalone main package with its own go.mod using `replace github.com/rogpeppe/go-internal => {wt}`; say exactly how to run it). Verify both directions yourself: save `git diff > {out}/patch.diff`, revert with `git apply -R {out}/patch.diff`, restore with `git apply {out}/patch.diff`. Do NOT use `git stash`: the stash is shared with other worktrees of this repository that other people are using right now.

Deliverables, all under {out}/ :
  - patch.diff : output of `git -C {wt} diff` containing ONLY the change to non-test library source (no demo files, no test edits)
  - demo/      : the demonstration and anything it needs
  - meta.json  : {{"property": "{pid}", "summary": "...what the change does...", "needs": "...what is required for the violation to manifest...", "demo_cmd": "...ONE shell command line (may use && and ;) that runs the demo from a shell whose working directory is {wt}, exits non-zero with the patch and zero without; it must clean up any file it copies into the worktree..."}}
Leave the worktree with the patch applied (uncommitted) and no other modified or untracked files in it. Do not commit. Keep the patch small (ideally < 30 changed lines).

When done, reply with a 5-line summary: what you changed, why the existing tests do not notice, and what it takes to trigger it.""")
