# Per-property driver configuration (see ./run). "rule" and "assumptions" go into the evidence file.
PROPS = {
    "C03": {
        "pkg": "c03_txtar",
        "level": "exploration",
        "technique": "small-scope exhaustive enumeration + rapid property tests + native fuzzing; differential oracle (x/tools txtar, reference parser) and round-trip",
        "level_text": "Every byte string over a 6-letter marker-relevant alphabet up to length 9 (quick) / 11 (thorough) plus random near-marker texts, well-formed archives and a fuzz campaign are checked against two independent references and the round-trip law; exhaustive within the stated scope, search beyond it.",
        "level_note": "Trusted: golang.org/x/tools/txtar v0.26.0 as the definition on CR-free input; the 40-line CR-aware reference parser (cross-checked against x/tools on every CR-free case).",
        "shards": {"quick": 1, "thorough": 16},
        "fuzz": [{"name": "FuzzParse", "seconds": 90}],
        "rule": "inputs: (i) every byte string over the alphabet {'-',' ','x','\\n','\\r','>'} up to length 9 (quick) / 11 (thorough), "
                "(ii) rapid-generated texts of near-marker line fragments and arbitrary bytes with LF/CRLF/CR/missing line ends, "
                "(iii) well-formed archives built by construction, (iv) CR-free texts with CRLF applied to a drawn subset of marker lines, "
                "(v) thorough: native fuzzing. Oracle: no panic; Parse(Format(Parse x)) = Parse x; = x/tools Parse on CR-free input; "
                "= CR-aware reference parser written from the format definition; well-formed a round-trips exactly. "
                "Non-trivial: the input has a line that begins with '-- ' or ends with ' --' (marker or near-marker); "
                "distinct = distinct input bytes (enumerated strings are distinct by construction, random cases by 64-bit hash).",
        "assumptions": ["golang.org/x/tools/txtar v0.26.0 is the reference definition on CR-free input",
                        "the reference parser (harness/txtarref) is cross-checked against x/tools on every CR-free case; a disagreement is reported as a harness error"],
    },
    "C14": {
        "pkg": "c14_quote",
        "level": "exploration",
        "technique": "small-scope exhaustive enumeration + rapid property tests + native fuzzing; two independent references for 'contains a marker line' and the Quote/Unquote inverse law",
        "level_text": "Every byte string over the 6-letter marker alphabet up to length 9 (quick) / 11 (thorough), random near-marker bodies (CRLF, missing final newline, non-UTF-8) and a fuzz campaign: NeedsQuote must equal a line-scan reference and the observable effect on Parse(Format(.)); Quote results must invert, need no quoting and survive Format/Parse.",
        "level_note": "Trusted: the line-scan definition of a marker line (harness/txtarref), cross-checked on every case against the parser effect under golang.org/x/tools/txtar (CR-free) or the reference parser.",
        "shards": {"quick": 1, "thorough": 16},
        "fuzz": [{"name": "FuzzBody", "seconds": 90}],
        "rule": "bodies: every byte string over {'-',' ','x','\\n','\\r','>'} up to length 9 (quick) / 11 (thorough); rapid bodies of near-marker fragments with LF/CRLF/CR/missing final newline, Unicode spaces, invalid UTF-8; thorough: native fuzzing. "
                "Oracle: NeedsQuote = line-scan reference R1 = (Parse(Format({f,body})) != [{f, body+NL}]); for accepted Quote: Unquote(Quote(d)) = d, quoted form has no marker line and survives Format/Parse. "
                "Non-trivial: some line of the body begins with '-- ' or '>'; distinct by input bytes.",
        "assumptions": ["Quote may refuse any input (the statement only constrains accepted inputs)"],
    },
    "C08": {
        "pkg": "c08_diff",
        "level": "exploration",
        "technique": "small-scope exhaustive enumeration + rapid property tests + native fuzzing; oracle = independent strict unified-diff reader/applier (forward and reverse)",
        "level_text": "All pairs of texts of <= 5 lines over a 3 (quick) / 4 (thorough) letter line alphabet with and without final newline, random edited texts up to 80 lines with duplicates and diff look-alike lines, and a fuzz campaign are judged by an independent count-driven unified-diff applier: empty iff identical, header, hunk order/overlap/counts, forward application = new, reverse application = old.",
        "level_note": "Trusted: the 200-line applier in harness/c08_diff/applier.go, itself validated on the repository's 12 golden diffs on every run.",
        "shards": {"quick": 1, "thorough": 16},
        "fuzz": [{"name": "FuzzDiff", "seconds": 90}],
        "rule": "pairs (old,new): (i) exhaustive over all texts of <=5 lines from {a,b,c} (quick) / <=5 lines from {a,b,c,''} (thorough), each with/without final newline; (ii) rapid: old = 0-80 lines from a pool of mostly-unique lines, duplicates and diff look-alikes, new = old after 0-6 insert/delete/replace/move edits (sparse or dense), final newline drawn per side; (iii) thorough: native fuzzing of byte pairs. "
                "Non-trivial: old != new and (>=2 hunks, or a side lacks its final newline, or a line occurs on both sides more than once, or a diff look-alike line is present); for the exhaustive scope every differing pair counts (all have duplicates or newline variants). Distinct by (old,new) bytes.",
        "assumptions": ["file names passed to Diff contain no newline (names are fixed to old/new)"],
    },
    "C19": {
        "pkg": "c19_build",
        "level": "exploration",
        "technique": "small-scope exhaustive enumeration of file names + rapid-generated +build blocks + native fuzzing; oracle = reference written from the statement, cross-checked against go/build/constraint and go/build.Context.MatchFile",
        "level_text": "Every file name of a prefix and up to four segments from a 13-token vocabulary (plus every known OS/arch token pair) under 16 tag sets, and random leading comment blocks with well-formed and malformed +build lines under random tag sets, are compared with a reference implementation of the stated rules; on the sub-domain where Go's own go/build and go/build/constraint define the same rules the results are also compared with them.",
        "level_note": "Trusted: the reference in harness/c19_build (refShouldBuild/refMatchFile) and Go 1.23's go/build, go/build/constraint on the sub-domain excluding implicit tags (cgo, gc, unix, go1.N), ios/illumos/wasip1 and malformed terms.",
        "shards": {"quick": 1, "thorough": 16},
        "fuzz": [{"name": "FuzzContent", "seconds": 90}],
        "rule": "names: prefix in {x,'',linux,a.b,x_,Foo} x 0-3 (quick) / 0-4 (thorough) segments from {linux android windows darwin js amd64 arm64 386 wasm test foo unix ''} x extension {.go,_test.go,.s,'',.x.go} x 16 tag sets incl. android+arm64, {}, '*', '*'+ignore (exhaustive); all pairs of known OS/arch tokens as suffix. "
                "content: 0-7 leading lines drawn from +build lines (0-4 options of 1-3 comma terms, negations, malformed terms, Unicode tags, //+build, +buildx, indented, CRLF), blank lines, plain comments, non-comment lines; then EOF, an unterminated +build line, or [blank] package clause; tags = OS+arch+drawn extras, '*', '*'+ignore. "
                "Non-trivial: names whose last (or last-before-_test) segment is a known OS/arch; contents with >=1 counted +build line that has >=2 options, a comma term or a negation. Distinct by (name|content, tags).",
        "assumptions": ["'known' OS/arch = the package's exported KnownOS/KnownArch tables", "MatchFile with tags['*'] accepts every name (the 'ignore' exclusion applies to content only)"],
    },
    "C18": {
        "pkg": "c18_imports",
        "level": "exploration",
        "technique": "grammar-based rapid generation of valid Go files + mutated/arbitrary bytes + native fuzzing; differential oracle go/parser (full file and returned prefix) and a metamorphic relation between the strict and lenient modes",
        "level_text": "Grammar-generated valid Go files (BOM, comments of every shape in every gap, semicolons, grouped/named/dot/blank imports, raw and escaped path strings, trailing declarations that mention imports) are compared with go/parser on the whole file and on the returned prefix; mutated and arbitrary inputs check totality, the prefix property and the strict/lenient relation.",
        "level_note": "Trusted: go/parser of the Go 1.23 toolchain as the definition of 'syntactically valid' and of the import list; generated files that go/parser rejects are skipped and counted.",
        "shards": {"quick": 1, "thorough": 16},
        "fuzz": [{"name": "FuzzReadImports", "seconds": 90}],
        "rule": "valid files: [BOM] gaps 'package' ident terminator, 0-4 import declarations (single or grouped, 0-3 specs, alias none/_/./identifier incl. non-ASCII, path as interpreted string with \\x \\u \\U octal escapes or raw string), 0-2 trailing declarations; gaps drawn from blanks, newlines, CRLF, line comments and block comments (incl. /*/ x */, /***/, comments containing import text or newlines); terminators ';', newline, comment. arbitrary: random bytes or generated files after 0-3 mutations (truncate, NUL, byte flip, insert quote/comment opener/paren, delete, prepend BOM); every truncation of four seed files. "
                "Non-trivial: valid file with >=1 import and >=1 comment or semicolon inside the import section; arbitrary input on which strict mode errs or reports an import. Distinct by source bytes.",
        "assumptions": ["in lenient mode a non-syntax read error (NUL byte) may still be reported, with the data read so far"],
    },
    "C05": {
        "pkg": "c05_cache",
        "level": "exploration",
        "technique": "model-based stateful property test (rapid-generated operation histories incl. on-disk damage and a grammar of near-valid index entries) + native fuzzing of index-entry bytes; oracle = in-memory model + checksum/size gates",
        "level_text": "Histories of Put/PutBytes/PutNoVerify/Get/GetBytes/GetFile/OutputFile/reopen over 6 action IDs and 8 contents, interleaved with damage of index and data files (truncate, extend, flip, delete, replace, same-size overwrite, near-valid index entries), are run against the real cache; after every step every ID is looked up and compared with an in-memory model (exact bytes when untouched since the last Put; otherwise not-found or hash/size-verified). A deterministic matrix checks that Put repairs every damage kind.",
        "level_note": "Trusted: the in-memory model in harness/c05_cache; on-disk layout <dir>/<xx>/<hex>-a|-d as documented in cache.go (used to aim the damage; a layout change makes damage miss, which weakens but does not falsify the check).",
        "shards": {"quick": 4, "thorough": 16},
        "fuzz": [{"name": "FuzzIndexEntry", "seconds": 60}],
        "rule": "history = 1-30 operations drawn from put/putbytes/putnoverify (50%), explicit lookup, reopen/outputfile, damage (index|data x truncate/extend/flip/delete/replace/samesize; replaced index entries drawn from a 14-way grammar of valid and near-valid entries or arbitrary bytes); all 6 IDs are looked up with Get, GetBytes and GetFile after every step. "
                "Non-trivial: the history damages a file that a previously stored (or planted) entry depends on, so that lookups run against the damaged state. Distinct by operation list.",
        "assumptions": ["GODEBUG is cleared by the driver (gocacheverify would change Get)", "the cache directory is writable (Put on a writable directory must succeed)"],
    },
    "C13": {
        "pkg": "c13_trim",
        "level": "exploration",
        "technique": "model-based stateful property test (rapid histories of Put/lookup/advance/Trim with time simulated by translating file mtimes and trim.txt); oracle = retention model with margins + before/after directory snapshots",
        "level_text": "Histories of Put, Get/GetBytes/GetFile/OutputFile, Advance(dt), Trim, planted non-entry files and rewritten trim.txt (recent, old, future, garbage, missing) run against the real cache; virtual time advances by shifting every mtime and the trim record back. After each Trim a snapshot diff checks: no entry file used within 5 d is removed and such IDs stay readable; non-entry files untouched; nothing at all changes when the last trim is < 1 d old; when due, everything unused for > 5 d + 1 h is gone and trim.txt holds the current time.",
        "level_note": "Trusted: the retention model; time translation is exact because the code only uses differences now-mtime and now-lastTrim (no clock hook); margins of 2 minutes absorb real elapsed time inside a case; grey zones (age between 5 d and 5 d + 1 h, record 0-1 h in the future, due-ness within the margin) assert only the safety clauses.",
        "shards": {"quick": 4, "thorough": 16},
        "rule": "history = 2-28 operations over 5 action IDs and 4 contents: put, get, getbytes, getfile, outputfile, advance by one of 15 durations (5 min ... 30 d incl. 59/61 min, 23/25 h, 5 d +- 5 min, 5 d 1 h +- 5 min), trim, plant a non-entry file (README, fuzz/..., foreign names in sub-directories, drawn age), rewrite trim.txt (missing, garbage, or now - offset incl. future offsets); plus 7 fixed scenarios from the statement. "
                "Non-trivial: a history with >=1 due Trim that sees both a stale and a fresh entry file and >=1 lookup before it. Distinct by operation list.",
        "assumptions": ["file use is modelled per file: Get refreshes the index file only, GetBytes/GetFile/OutputFile also the data file, Put both", "foreign files are never named *-a or *-d (those names are cache entries by definition)"],
    },
    "C15": {
        "pkg": "c15_extract",
        "level": "exploration",
        "technique": "rapid property tests: hostile entry names against a pre-populated sandbox with before/after snapshot oracle; generated directory trees through the real txtar-c and txtar-x binaries with a round-trip oracle derived from the documented archiving rules",
        "level_text": "(1) archives whose names mix '.', '..', empty, absolute, backslash and colliding segments are written into sandbox/target; a snapshot of the whole sandbox before/after decides containment, no-overwrite, error reporting and exact contents. (2) generated trees (nested, dot files/dirs, missing final newline, empty, marker look-alikes, invalid UTF-8, spaces, symlinks) go through the txtar-c and txtar-x binaries built from the working tree; the extracted set must equal what the documented rules archive, with Unquote restoring quoted files.",
        "level_note": "Trusted: the snapshot walker; the documented archiving rules restated in the oracle (dot components skipped unless -a, invalid UTF-8 skipped, final newline added, marker-bearing files skipped unless -quote). Pre-existing symlinks inside the target and names with leading/trailing blanks or newlines are outside the quantifier and not generated.",
        "shards": {"quick": 4, "thorough": 16},
        "bins": {"txtar-c": ["$REPO", "./cmd/txtar-c"], "txtar-x": ["$REPO", "./cmd/txtar-x"]},
        "rule": "write: 1-5 entries with names of 1-4 segments from {a,b,.,..,'',c d,x\\y,target,targetx,sibling.txt,..a,a..,...,NUL} optionally with leading or trailing '/', against 0-3 pre-existing files and 0-2 directories in the target and sibling files outside it. roundtrip: 0-8 files at top level or in one of 8 directories (incl. dot dirs) with one of 14 bodies, optional empty dir, optional symlink, flags in {none,-quote,-a,-a -quote}, archive passed by name or stdin. "
                "Non-trivial: write case with an escaping or colliding name; tree with a nested file and a file that is skipped, newline-fixed or quoted. Distinct by case.",
        "assumptions": ["the sandbox runs as root: permission denials are never part of an expected outcome"],
    },
    "C09": {
        "pkg": "c09_work",
        "level": "exploration",
        "engine": "sched+rapid",
        "instr": ["par:parx"],
        "extra": [{"pkg": "parreal", "race": True, "tiers": ["quick", "thorough"], "run": "^TestWorkStress$", "shards": {"quick": 1, "thorough": 4}}],
        "technique": "property-based testing over schedules: par/work.go is re-compiled against harness shims of sync, sync/atomic, math/rand and the go statement, and run under a deterministic cooperative scheduler whose choices are rapid-drawn (random choice sequences, PCT priorities) or enumerated exhaustively up to a preemption bound; oracle = exactly-once / <=n in flight / quiescent at return / no deadlock",
        "level_text": "Item graphs x worker counts x schedules: random and PCT schedules drawn by rapid for graphs of up to 10 items and 5 workers, and every schedule with <= 2 (quick) / <= 3 (thorough) preemptions, including every rand.Intn and Cond.Signal choice, for 8 small graphs x n in 1..3. The scheduler detects deadlock (lost wake-up) exactly - no timeouts - and failing schedules shrink and replay deterministically.",
        "level_note": "Trusted: the shim semantics of Mutex/Cond/Map/atomic (harness/shim, sequential consistency between scheduling points; Cond.Signal wakes an arbitrary waiter, no spurious wake-ups) and the source instrumenter (harness/instr). Real-runtime memory-model effects are outside this check (covered only by the -race stress of C10/C20).",
        "shards": {"quick": 4, "thorough": 16},
        "rule": "case = item graph (1-10 items, successors incl. duplicates/back edges, 1-3 initial adds), n in 1..5 workers, 0-3 explicit yields inside f, schedule = rapid-drawn choice sequence of at least the expected step count (75%) or PCT priorities with 0-4 change points (25%), plus drawn results for rand.Intn and Cond.Signal; exhaustive part: 8 fixed small graphs x n in 1..3 x 0/1 yields, all schedules within the preemption bound. "
                "Non-trivial: >=2 workers and a worker parked in Cond.Wait was woken by an Add made from inside f. Distinct by case (graph+schedule); enumerated executions are distinct by construction.",
        "assumptions": ["the instrumented copy of par/work.go is generated from the current working tree on every run"],
    },
    "C10": {
        "pkg": "c10_parcache",
        "level": "exploration",
        "engine": "sched+rapid",
        "instr": ["par:parx"],
        "extra": [{"pkg": "parreal", "race": True, "tiers": ["quick", "thorough"], "run": "^TestCacheStress$", "shards": {"quick": 1, "thorough": 4}}],
        "technique": "property-based testing over schedules (same engine as C09): rapid-drawn and PCT schedules plus bounded exhaustive enumeration of par.Cache Do/Get programs under the cooperative scheduler; oracle = f once per key, value agreement, Do returns after f completed, Get never blocks",
        "level_text": "2-5 tasks each running 1-4 Do/Get operations over 1-3 keys with yields inside f, under random and PCT schedules, and every schedule with <= 3 (quick) / <= 4 (thorough) preemptions of 8 small programs. Checked: f invoked once per key, every Do returns that invocation's value and only after it completed, Get returns nil or that value and is never parked waiting for another task, a Get that starts after some Do returned sees the value.",
        "level_note": "Trusted: shim semantics (sequentially consistent sync.Map, Mutex, atomic) and the instrumenter. The thorough tier additionally runs the unmodified package under the race detector (real scheduler) for memory-model coverage.",
        "shards": {"quick": 4, "thorough": 16},
        "rule": "case = 2-5 task programs of 1-4 operations (do with 0-3 yields inside f, or get) over 1-3 keys; schedule = drawn choice sequence at least as long as the expected step count (75%) or PCT (25%); exhaustive part: 8 fixed programs of 2-3 tasks, all schedules within the preemption bound. "
                "Non-trivial: at least two tasks were inside Do for the same key while f was running. Distinct by case; enumerated executions are distinct by construction.",
        "assumptions": ["the instrumented copy of par/work.go is generated from the current working tree on every run"],
    },
    "C12": {
        "pkg": "c12_putfault",
        "level": "fault_enumeration",
        "engine": "fos+enum+rapid",
        "instr": ["cache:cachex", "lockedfile:lockedfilex", "lockedfile/internal/filelock:lockedfilex/internal/filelock"],
        "technique": "fault enumeration as generated-input search: cache.go is re-compiled against an os shim that numbers file operations; every operation index x fault kind x short-write cut is enumerated for 17 scenarios, crossed with misbehaving source readers (error, early EOF, extra bytes, changed bytes on pass 2, Seek failure) at 5-10 offsets; rapid draws further products; thorough adds real SIGKILLs of a writer process. Oracle = lookups by the uninstrumented package verified by hash/size.",
        "level_text": "For each scenario (new entry of 0/139/4096/4097 bytes, overwrite with other size, re-put, content shared with another id, output pre-damaged shorter/longer/flipped/empty) the fault-free operation trace of Put is recorded and a fault is injected at every operation: fail, short write then fail, halt before, halt after, halt after a short write. The same is done on top of every source misbehaviour. After each run the real package must return not-found or hash-verified bytes (and, from an undamaged start, GetFile must name a file with the reported size and hash), unrelated entries must be intact, and a later Put must succeed.",
        "level_note": "Crash model: execution halts between two file operations of the activity (written data persists, deferred file operations of the halted activity do nothing); power-loss reordering is outside the property. Trusted: the os shim (harness/shim/fos) and the instrumenter. One fault per dimension: an entry that shares the target's content is asserted intact only under single faults.",
        "shards": {"quick": 4, "thorough": 16},
        "rule": "run = (scenario, source behaviour, operation index k, fault kind, cut): exhaustive over k (all operations of the fault-free trace), kinds and cuts {0,1,n/2,n-1} for 17 scenarios x {1,3} unrelated entries; the same enumeration on top of each of 9 source behaviours x offsets {0,1,mid,size-1,size} (thorough: 10 offsets, larger content); plus rapid-drawn products; thorough: 60 SIGKILL rounds per shard. "
                "Non-trivial: the fault lands after the first data byte of the output or index was written and before Put returned (or a source fault is active). Runs are distinct by construction.",
        "assumptions": ["single-process crash model at file-operation granularity", "GODEBUG cleared"],
    },
    "C11": {
        "pkg": "c11_cacheconc",
        "level": "exploration",
        "engine": "sched+fos+rapid",
        "instr": ["cache:cachex", "lockedfile:lockedfilex", "lockedfile/internal/filelock:lockedfilex/internal/filelock"],
        "technique": "property-based testing over file-operation interleavings: cache.go re-compiled against the os shim, whose every file operation is a scheduling point of the cooperative scheduler; rapid-drawn and PCT schedules of 2-4 actors on a hot ID, bounded exhaustive enumeration for 2 actors x 2 operations, plus real multi-process hammering; oracle = self-describing payloads + never-miss for stable IDs + readability at quiescence",
        "level_text": "2-4 actors (each with its own Open of one directory; Cache has no mutable fields, so an actor is equivalent to a process at file-operation granularity) run Put/GetBytes/GetFile programs over 2 stable IDs (one content, re-stored) and 2 volatile IDs (3 contents, two of equal size) under controlled interleavings of their individual file operations. Every successful lookup must return a payload stored for that very ID with matching hash and size; a lookup of a stable ID that starts after a Put of it returned must not miss; at quiescence every stored ID is readable. The same oracle runs against 2-3 real processes x 2-4 goroutines on a real directory.",
        "level_note": "Trusted: the os shim and scheduler; one Go-level file call is one atomic step (a single write(2) of an index entry or <=32 KiB chunk on a local file is not split). The multi-process part relies on the OS scheduler (randomized search with an exact oracle).",
        "shards": {"quick": 4, "thorough": 16},
        "rule": "case = 2-4 actor programs of 1-4 operations (put/getbytes/getfile) with 75% of operations on one hot ID, or the template 'one actor re-Puts a stable ID 2-4 times while the others Put it once and look it up'; schedule = drawn choice sequence of at least the fault-free step count (75%) or PCT with 0-5 change points (25%); exhaustive: 6 programs of 2 actors, all schedules with <=2 (quick, budget 3000 per program) / <=3 (thorough, budget 40000) preemptions; processes: 2-3 processes x 2-4 goroutines for 0.3 s (quick) / 0.5-2.5 s (thorough). "
                "Non-trivial: a lookup of an ID ran while a Put of the same ID was in progress in another actor. Distinct by case.",
        "assumptions": ["local file system (ext4), single machine"],
    },
    "C06": {
        "pkg": "c06_lock",
        "level": "exploration",
        "engine": "rapid+rig",
        "technique": "model-based stateful property test with kernel lock-state probes (non-blocking flock from fresh descriptors after every step) + randomized multi-process contention rig with an exact shared-memory overlap witness + deterministic hand-over scenarios for every holder/waiter entry-point pair",
        "level_text": "(1) rapid-generated acquire/release sequences through every public entry point (OpenFile flag combinations, Open, Create, Edit, Mutex.Lock, and Read/Write/Transform whose callback is the critical section) on 3 paths, executed only when the model says they do not block; after every step the kernel's lock state of every path is probed and compared with the model - this decides 'held from return until Close, released by Close' without timeouts. (2) 2-4 processes x 2-5 goroutines run drawn programs on shared paths; counters in an mmap'ed side file are changed strictly inside each held interval, so any failed check is a true overlap. (3) for each (holder, waiter) pair the waiter must not return before the release.",
        "level_note": "Trusted: flock(2) semantics of the kernel as the observation channel (probes use their own open file descriptions); the OS scheduler in (2) and (3) (randomized search, exact oracle). The EINTR retry loop cannot be provoked deterministically and is covered only incidentally.",
        "shards": {"quick": 4, "thorough": 16},
        "rule": "(1) 1-25 operations: acquire(path, entry) with entry from 10 write and 3 read entry points, or release(holder); (2) procs in 2..4, 2-5 goroutines per process, 3-12 steps each (path, entry, spin) on 1-3 paths; (3) all 124 holder/waiter pairs. "
                "Non-trivial: (1) a sequence with >=1 executed acquisition (lock held and probed); (2) a run in which >=2 acquisitions found the path already held (contention counter in the side file); (3) every pair. Distinct by case.",
        "assumptions": ["Linux flock locks belong to open file descriptions, so a probe from a fresh descriptor conflicts with a holder in the same process"],
    },
    "C07": {
        "pkg": "c07_atomic",
        "level": "exploration",
        "engine": "rapid+rig+fos",
        "instr": ["cache:cachex", "lockedfile:lockedfilex", "lockedfile/internal/filelock:lockedfilex/internal/filelock"],
        "technique": "randomized multi-process histories of Read/Write/Transform with unique self-describing values, judged by a linearizability checker (porcupine, atomic-register model with read / write / read-modify-write); deterministic truncate-before-lock probe; exhaustive fault injection at every file operation of Transform through the os shim",
        "level_text": "(1) 1-3 processes x 1-4 goroutines run drawn programs on one file; every value is unique and carries its length and a checksum, so an empty, truncated or mixed read is recognised by itself, and the CLOCK_MONOTONIC-stamped history must be linearizable (no stale read, no lost update). (2) while a read lock is held, a concurrent Write/Create/OpenFile(O_TRUNC) must not change the bytes on disk. (3) for 10 old/new length relations x callback ok/error, every file operation Transform performs is made to fail (writes also cut short at 0, 1, n/2, n-1 bytes): error => file holds exactly the old contents, nil => exactly the new.",
        "level_note": "Trusted: porcupine v1.3.0; CLOCK_MONOTONIC is machine-wide; the os shim for (3). (1) depends on the OS scheduler: randomized search with an exact oracle; a linearizability search that exceeds 20 s is counted as inconclusive, never as a violation. One fault per Transform call (the statement's 'any single write step').",
        "shards": {"quick": 4, "thorough": 16},
        "rule": "(1) case = procs in 1..3, 2-12 goroutines, up to 40 operations in total drawn from read (33%), write, transform (33%), transform whose callback errs; value lengths from {20,30,200,5000,70000,260000}, initial length from {30,500,70000}; (2) 3 writer kinds x 3 (quick) / 20 (thorough) lengths; (3) exhaustive as described. "
                "Non-trivial: (1) a history with >=2 overlapping operations of which >=1 writes; (3) a fault at a write step with len(new) != len(old). Distinct by case.",
        "assumptions": ["local file system; flock-based locking as on Linux"],
    },
    "C20": {
        "pkg": "c20_goproxy",
        "level": "exploration",
        "engine": "rapid",
        "race": True,
        "technique": "rapid-generated module directories (escaped paths, release/pre-release/pseudo/+incompatible/invalid versions, .txt/.txtar/directory layouts, nested and dot files) served by a real goproxytest.Server; oracle = stored bytes, zip member set and contents, list multiset, 404 for absent requests, concurrent-equals-sequential against a fresh server, end-to-end `go mod download` for a sample",
        "level_text": "Each case materialises 1-4 module paths x 1-4 versions in drawn storage forms and starts a Server. Every stored (path, version, ext) is requested: .info/.mod must be byte-identical to the stored entries, .zip must open with archive/zip and contain exactly the stored files whose names do not start with a dot under path@version/ with identical bytes, list must return exactly the non-pseudo versions valid for the path; drawn absent requests (unknown path/version/extension, unescaped upper case, missing /@v/) must yield 404. The same request set is then fired three times from 16 goroutines at a fresh server and must reproduce the sequential responses. 5% of cases also run `go mod download` against the proxy and compare the extracted tree. Thorough builds with -race.",
        "level_note": "Trusted: archive/zip, golang.org/x/mod/module (Check, IsPseudoVersion, escaping) as the definition of valid/pseudo versions. net/http interleavings are not controlled (randomized + race detector). All-hex version strings are excluded from the 404 class (they resolve by commit-hash prefix by design). A list request for a module with no listable version may answer 404 or an empty list.",
        "shards": {"quick": 4, "thorough": 16},
        "rule": "case = 1-4 paths from 8 (upper-case letters, elements starting with v, /vN suffixes, gopkg.in) x 1-4 versions from the path's pool (release, pre-release, 3 pseudo-version shapes, +incompatible, wrong major) each stored as .txt, .txtar or directory with .info, .mod (sometimes without final newline) and 0-6 files from a pool of nested, dot, empty and unterminated files; 2-6 absent requests from 15 shapes. "
                "Non-trivial: a module stored in >=2 forms, or an escaped path, or a dot file that must be filtered. Distinct by case.",
        "assumptions": ["module paths contain no underscore (the naming scheme uses '_' as separator)"],
    },
    "C01": {
        "pkg": "c01_verdict",
        "level": "exploration",
        "engine": "rapid+tsmodel",
        "bins": {"testscript": ["$REPO", "./cmd/testscript"]},
        "technique": "model-based property test: a state-aware grammar generator (rapid) builds scripts, archives and Params; an independent reference interpreter written from doc.go predicts verdict, failing line numbers, final file tree and custom-command observations from the script text; the real RunT (recording T, retained work directory) and the real cmd/testscript binary are compared with it",
        "level_text": "Scripts of 1-25 lines over the whole documented command set with negation, stacked [cond]/[!cond] guards, background commands with kill/wait, custom commands and conditions, ContinueOnError / RequireExplicitExec / RequireUniqueNames, and archives of 0-6 files (nested, $WORK names, duplicates). About 60% contain a failing line at a drawn position, built on purpose from the modelled state (missing path, non-matching pattern, wrong -count, wrong arity, unsupported !, unknown command, chosen exit code). Checked: verdict (pass/fail/skip), the FAIL file:line lines name exactly the model's failing lines, the retained work directory equals the model tree (names, kinds, bytes, symlink targets, chmod'ed modes), probe/getenv/defer records. Batches of 1-3 scripts also go through the real testscript command: exit 0 iff no script's model verdict is fail.",
        "level_note": "Trusted: the reference interpreter (harness/tsmodel, ~1100 lines, validated against the repository's own passing scripts) and the deterministic helper program. Anything outside the modelled sub-language (pty commands, [net], anchors in patterns, paths outside $WORK, symlink chains, signals to processes that may have exited, failing wait under ContinueOnError) makes the model abstain and the case is skipped and counted. The sandbox runs as root: no outcome depends on a permission denial.",
        "shards": {"quick": 4, "thorough": 16},
        "rule": "case = (Params, archive, script text) from the state-aware generator: each line is proposed from ~45 line shapes with arguments taken from the modelled state and kept when the model says it has the intended outcome (fail at the drawn position, else succeed); lines after the end of the script are appended to witness that they have no effect. CLI cases: 1-3 scripts, optional -continue. "
                "Non-trivial: >=1 executed line and the verdict involves a negation, a condition guard, a failing line at position > 1, stop/skip, or a background wait. Distinct by case.",
        "assumptions": ["umask 022", "PATH contains the helper directory created by testscript.Main"],
    },
    "C02": {
        "pkg": "c02_words",
        "level": "exploration",
        "engine": "rapid+tsmodel",
        "fuzz": [{"name": "FuzzLine", "seconds": 60}],
        "technique": "rapid property tests through RunT (the tokenizer is unexported): (a) constructive - words are built from pieces (literal bytes under a drawn quoting strategy, $NAME, ${NAME}, ${NAME@R}, $$) over a drawn assignment history, so the expected argv is known by construction; (b) analytic - grammar-generated raw lines against a reference tokenizer written from the statement; observations through a probe command, TestScript.Getenv, and the environment printed by an executed helper",
        "level_text": "(a) 3-20 steps per script: env/setenv assignments (identifier and wider names, values with blanks, quotes, $, #, CR, ${X} look-alikes, invalid UTF-8), probe lines of 0-4 words of 1-4 pieces with trailing comments, getenv, printenv and whole-environment dumps by an exec'ed helper. The argv received by probe must equal the concatenation of piece values under the latest assignment (one word each, not re-split, not re-expanded), ${NAME@R} must compile, match the value and none of its near-misses, Getenv and the child's environment must show the latest values (the child's whole environment = last-wins map + PWD). (b) raw lines over a 27-token structural alphabet: argv must equal the reference tokenizer's, lines with an unterminated quote must fail at that line.",
        "level_note": "Trusted: the 100-line reference tokenizer (harness/tsmodel/token.go) for (b); (a) needs no model. Unquoted CR, os.Expand forms other than $NAME ${NAME} ${NAME@R} $$, names with blanks, and @R of invalid UTF-8 are outside the statement and are not generated.",
        "shards": {"quick": 4, "thorough": 16},
        "rule": "(a) case = Setup variables (0-4, duplicates allowed) + 3-20 steps; (b) case = 1-20 raw argument lines of 0-12 tokens from the structural alphabet. "
                "Non-trivial: (a) a quoted chunk adjacent to other text, a reassigned variable, or an @R expansion; (b) a line with both a quote and a $. Distinct by case.",
        "assumptions": ["values contain no newline (script lines) and no NUL when passed to a child process"],
    },
}
