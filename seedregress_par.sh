#!/bin/bash
# usage: [NG=4] ./seedregress_par.sh [tier] - seedregress.sh over all kept seeds, in NG groups side by side (by property number)
tier=${1:-quick}
ng=${NG:-4}
cd /verif
rm -f /tmp/seedregress-group?.log
for g in $(seq 0 $((ng-1))); do
  ids=$(ls seeded | awk -v g=$g -v ng=$ng '{n=substr($0,2,2)+0; if (n%ng==g) print}')
  ./seedregress.sh $tier $ids > /tmp/seedregress-group$g.log 2>&1 &
done
wait
cat /tmp/seedregress-group?.log | grep -v "^seeds run" | sort
grep -h "^seeds run" /tmp/seedregress-group?.log
! grep -q "NOT caught\|does not apply\|cannot create" /tmp/seedregress-group?.log
