#!/bin/bash
# usage: ./seedregress_par.sh [tier] - seedregress.sh over all kept seeds, in four groups side by side (by property number)
tier=${1:-quick}
cd /verif
for g in 0 1 2 3; do
  ids=$(ls seeded | awk -v g=$g '{n=substr($0,2,2)+0; if (n%4==g) print}')
  ./seedregress.sh $tier $ids > /tmp/seedregress-group$g.log 2>&1 &
done
wait
cat /tmp/seedregress-group?.log | grep -v "^seeds run" | sort
grep -h "^seeds run" /tmp/seedregress-group?.log
! grep -q "NOT caught\|does not apply\|cannot create" /tmp/seedregress-group?.log
