#!/bin/bash
# usage: ./mutsed.sh <file-in-repo> <sed-expr> <Cnn> [tier] — apply a sed mutation to /repo, run a check, undo. Sensitivity validation only.
set -u
f=$1; expr=$2; prop=$3; tier=${4:-quick}
cd /verif
sed -i -E "$expr" /repo/$f
if git -C /repo diff --quiet; then echo "mut: sed changed nothing"; exit 3; fi
git -C /repo diff | grep '^[-+]' | grep -v '^\(---\|+++\)'
( cd /repo && GOFLAGS=-mod=mod GOPROXY=off GOSUMDB=off GOTOOLCHAIN=local go build ./... ) || { echo "mut: does not compile"; git -C /repo checkout -- .; exit 3; }
./run "$prop" "$tier" 2>&1 | head -${MUTLINES:-8}; rc=${PIPESTATUS[0]}
git -C /repo checkout -- . ; git -C /repo status --short
echo "mut: rc=$rc"
