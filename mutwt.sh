#!/bin/bash
# usage: ./mutwt.sh <file-in-repo> <sed-expr | @patch.diff> <Cnn> [tier] - like mutsed.sh / mut.sh, but in a scratch worktree of /repo's HEAD
# (VERIF_REPO), so /repo itself is never touched and background runs against /repo are not disturbed. Sensitivity validation only.
set -u
f=$1; expr=$2; prop=$3; tier=${4:-quick}
export GOFLAGS=-mod=mod GOPROXY=off GOSUMDB=off GOTOOLCHAIN=local
wt=/tmp/mutwt-$$
git -C /repo worktree add --detach $wt HEAD >/dev/null 2>&1 || { echo "cannot create worktree"; exit 3; }
trap 'git -C /repo worktree remove --force $wt >/dev/null 2>&1; git -C /repo worktree prune; rm -rf /verif/.build/alt-mutwt-$$' EXIT
if [ "${expr:0:1}" = "@" ]; then git -C $wt apply "${expr:1}" || { echo "mut: patch does not apply"; exit 3; }
else sed -i -E "$expr" $wt/$f; fi
if git -C $wt diff --quiet; then echo "mut: changed nothing"; exit 3; fi
git -C $wt diff | grep '^[-+]' | grep -v '^\(---\|+++\)'
( cd $wt && go build ./... ) || { echo "mut: does not compile"; exit 3; }
VERIF_REPO=$wt /verif/run "$prop" "$tier" 2>&1 | head -${MUTLINES:-8}; rc=${PIPESTATUS[0]}
echo "mut: rc=$rc"
exit $rc
